"""C01 - dictable behaves as a rectangular list of records.

Representation invariant  wf(d, n): every column is a list of length n (pyvc/th_tables.py); records, lists of records, plain dicts of columns and the
constructor live in pyvc/th_tables2.py.  Functions under contract (real source, re-read on every run):
  dictable.__setitem__   fits / first column of an empty table / length-1 broadcast keep wf; a misfit raises ValueError before anything is stored
  dictable.__len__, shape, get (the column, or `[default] * len(self)`)
  dictable.__iter__      (generator: the loop appends every yielded value to a ghost list) one Dict per row, in order, column -> cell
  dictable.__getitem__   int: d[i][c] == d[c][i];  list of booleans (one per row; also the empty list): all columns, count_true(mask) rows, the row of true
                         entry i at position count_true(mask, i) - with the induction lemmas about count_true: exactly the rows whose entry is true, in order
                         (this is the MASK contract of C06);  slice: every column cut by the same slice, row j of the result is one table row in every column;
                         column name: the stored column / KeyError;  tuple of 1..3 names: the list of the rows' key tuples (the projection _listby takes as
                         callee contract);  list of names: exactly these columns, as they were (through dictattr.__getitem__ and the keyword constructor);
                         list of k >= 1 integers: `list(zip(*self.values()))` is the list of the row tuples (axiom: transposition of the columns), indexed the
                         Python way, then the constructor from rows + headers by its contract: all columns, k rows, row j is row item[j] of the receiver
                         (negative indices from the end), IndexError iff an index is outside -len .. len-1, the receiver is left as it was
                         (the row selection C02's xor ends with)
  dictable.__init__      with _data_columns_as_dict, _value, as_list inlined: from a dict of equally long lists, from keyword columns, from ([], column names),
                         from a list of records (dict_concat by contract), from nothing; from a list of n row tuples of length m and m distinct column names
                         (a list of names, or the keys() of a dict; zipper by contract): exactly the named columns, column p lists row[i][p], i = 0..n-1,
                         for n == 0 the named columns, all empty (pyvc/th_tables3.py); from one record whose cells are None, python lists or scalars
                         (what concat does to every record, hence unlist to every row; as_list and lens by contract): ValueError iff two list cells have
                         different lengths other than 1, else the keys as columns, all of one length, a cell of that length as it is and a scalar /
                         None / one-element list repeated - the broadcast on construction
  dict_concat            whole body: no record, one record, records with one key set (sorted items / transpose / zip), several key sets (union, d.get)
  dictattr.__delitem__, dictable.__delattr__, dictattr.__sub__   the named column goes, the others are untouched, the table stays rectangular
  dictable.__add__ / concat for two tables   union of the columns, rows of the left operand then of the right one, in order, None for a column an operand lacks
  dictable.update        loop over __setitem__ with the invariant "keys passed are stored, the rest is as before" (values that fit)
Callee contracts: lens, zipper, as_list on lists (proved in C19); __setitem__ inside update, __iter__ / the constructor / dict_concat / dictable.get inside the
selection forms and concat (proved here, section named in each use text).  The sections constructor.rows and __getitem__.ints are grounded lazily: an
obligation z3 discharges as it stands is kept, one it does not (a failing one, on a changed tree) is grounded so that it comes back `sat` with a model.
Outside the rows + headers contract (its preconditions): rows of unequal length, a name count other than the row length, repeated names.
Still bounded only (rac/C01.py): broadcast on construction for tuple / range / dict-view cells and for keyword columns, DataFrame / path inputs, relabel, do, derived columns, concat of more than two tables, and the induction over whole operation histories (each proved operation keeps wf and agrees with the
list-of-records model clause by clause; chaining them is an argument, not a solver step).
"""
import ast
import z3
from z3 import And, Or, Not, If, Implies, Int, Ints, IntVal, BoolVal, ForAll, Exists, Const, Lambda, Select, Store

from pyvc.front import select, SelectorError, OutOfSubset, walk_no_defs
from pyvc.symex import Exec, State, LoopSpec
from pyvc.theories import TypePreds, ConcreteStr
from pyvc.th_lists import Lists, Val, NONEV, VAL, fresh_list, V, as_list_sv
from pyvc.th_tables import Tables, Key, KEY, fresh_table, wf, no_columns, nrows, column, same_table, key_of
from pyvc.sv import SV, I, B, S, T, NONE, fresh_name, fresh_int
from pyvc.th_tables2 import (Rows, Init, Concat, Concats, Slices, Deletes, Names, Updates, NK, SK, SP, name_list, named, PySlice, SLEN, SIDX, slice_axiom, CNT, cnt_def, count_lemmas, fresh_rowlist, rows_of, mask_list, rowmap, fresh_colmap, as_table, CLS,
                              equally_long, same_columns, records_contract, empty_with_columns_contract, mask_contract, MASK_CLAUSES)
from pyvc.th_lists import INT
from pyvc.th_tables3 import (RowsHeaders, fresh_rows, rows_of_width, keyseq, distinct_names, rows_headers_contract, ROWS_CLAUSES, RecordCells, cell_axioms, record_clash,
                              record_contract, RECORD_CLAUSES, ISL)
from pyvc.th_tables2 import VLEN

PROP = 'C01'
REPLAY_MODULE = 'rac.C01_ded'


class Dictable:
    """what the bodies under contract call on `self` beyond the dict level: len(self) is the real __len__ (inlined)"""

    def __init__(self, m):
        self.m = m

    def call(self, ex, st, e, fname, args, kwargs):
        if fname == 'len' and len(args) == 1 and args[0].kind == 'table':
            return ex.call_inline_expr(st, 'dictable.__len__', [args[0]], {})
        if fname in ('as_list',) and len(args) == 1 and args[0].kind == 'list':
            ex.use('callee contract:as_list(x) is x for a list (C19)')
            return args[0]
        if fname == 'list' and len(args) == 1 and args[0].kind == 'list':
            return args[0]
        return NotImplemented

    def method(self, ex, st, e, recv, mname, args, kwargs):
        if recv.kind == 'table' and mname == '_dict' and len(args) == 1 and args[0].kind == 'rowmap':
            ex.use('model:self._dict is Dict: a mapping with the given items')
            return args[0]
        return NotImplemented

    def dictcomp(self, ex, st, e):
        # {key: f(key, value) for key, value in self.items()}: a map with the same keys
        if len(e.generators) != 1 or e.generators[0].ifs:
            return NotImplemented
        g = e.generators[0]
        it = ex.eval(st, g.iter)
        if it.kind != 'titems' or not (isinstance(g.target, ast.Tuple) and len(g.target.elts) == 2):
            return NotImplemented
        t = it.f['of']
        kv = Const(fresh_name('k!dc'), Key)
        sub = st.fork(); sub.pending = []
        sub.pc.append(t.dom[kv])
        base = len(sub.pc)
        ex.assign(sub, g.target, T([KEY(kv), column(t, kv)]), None)
        knew = ex.eval(sub, e.key)
        vnew = ex.eval(sub, e.value)
        if knew.kind != 'key' or not z3.eq(knew.t, kv):
            raise OutOfSubset('dict comprehension renames its keys')
        for o in sub.pending:      # the comprehension raises iff some column raises
            cond = And(*o.st.pc[base:]) if len(o.st.pc) > base else BoolVal(True)
            k2 = Const(fresh_name('k!dcr'), Key)
            ex.raise_if(st, Exists([k2], And(t.dom[k2], z3.substitute(cond, (kv, k2)))), o.val)
        ex.use('axiom:{k: f(k, v) for k, v in d.items()} has the keys of d and the values f(k, d[k]); it raises iff some f(k, d[k]) raises')
        if vnew.kind == 'val':
            return SV('rowmap', None, dom=t.dom, vals=Lambda([kv], vnew.t))
        raise OutOfSubset('dict comprehension with %s values' % vnew.kind)


def ground_section(ctx, n0, rounds=2, only=None, lazy=False):
    """the obligations of a section are replaced by their quantifier-free grounding (pyvc/ground.py: universal hypotheses instantiated over the
    index terms of the query - a weakening of the hypotheses, so `unsat` still proves the clause, and a failing clause comes back `sat`).
    lazy: an obligation that z3 discharges as it stands within a second is left as it is (grounding costs about a second of generation per
    obligation); only the others - the failing ones on a changed tree - are grounded, so that they come back `sat` rather than `unknown`."""
    from pyvc.ground import ground_obligation
    for ob in ctx.obligations[n0:]:
        if ob.kind != 'syntactic' and (only is None or only(ob.name)):
            if lazy:
                s = z3.Solver()
                s.set('timeout', 1000)
                s.add(*ob.hyps)
                s.add(Not(ob.goal))
                if s.check() == z3.unsat:
                    continue
            ground_obligation(ob, rounds=rounds)
    ctx.trust('engine:obligations of the table sections are discharged on their grounding (universal hypotheses replaced by instances over the index terms of the query)')


def _inline(m):
    inline = {'_value': (m, m.func('_value'))}
    for f in ('__len__', '__setitem__', 'get', '__getitem__', '__iter__', '__init__'):
        inline['dictable.' + f] = (m, m.func('dictable.' + f))
    return inline


# ====================================================================================================== __iter__
def iter_obligations(ctx, m):
    """dictable.__iter__ (a generator: the loop appends every yielded value to a ghost list): over a rectangular table it yields one Dict per row, in
    order, with the table's columns as keys and the row's cells as values.  This is the contract `Rows.iter_rows` hands to callers."""
    fdef = m.func('dictable.__iter__')
    loop = select(fdef, 'For#0')
    n = Int('N')
    t = fresh_table('self')
    j = Int('j!it')
    c = Const('c!it', Key)

    def listed(y, k):
        return [('one_row_per_position', y.t == k),
                ('rows_have_the_columns_as_keys', ForAll([j], Implies(And(0 <= j, j < k), Select(y.doms, j) == t.dom))),
                ('row_j_holds_the_jth_cell_of_every_column', ForAll([j, c], Implies(And(0 <= j, j < k, t.dom[c]), Select(Select(y.vals, j), c) == t.carr[c][j])))]

    def inv(st, entry):
        return listed(st.ghost['yielded'], st.ghost['__iter__.For0.k'])

    def ghost_havoc(ex, st):
        st.ghost['yielded'] = fresh_rowlist('yielded')

    spec = LoopSpec('__iter__.For0', inv, ghost_havoc=ghost_havoc)
    ex = Exec(m, [Rows(known=[(t, n)], iter_contract=False), Dictable(m), Tables(), Lists(), TypePreds()], loops={id(loop): spec}, inline=_inline(m), name='__iter__')
    st = State(env={'self': t})
    st.pc.append(wf(t, n))
    st.ghost['yielded'] = fresh_rowlist('nil', 0)
    outs = ex.run_function(st, 'dictable.__iter__', [t], {})
    ctx.absorb(ex)
    ctx.record_function(m, 'dictable.__iter__', fdef, ex.stmts_executed)
    nret = 0
    for out in outs:
        hy = ex.facts + out.st.pc
        if out.kind != 'return':
            ctx.post('__iter__.never_raises_on_a_rectangular_table', hy, BoolVal(False), kind='safety')
            continue
        nret += 1
        for cname, goal in listed(out.st.ghost['yielded'], nrows(t, n)):
            ctx.post('__iter__.yields.' + cname, hy, goal)
    if nret == 0:
        raise OutOfSubset('__iter__ has no normal exit')
    ctx.cover('__iter__.pre', [wf(t, n), n == 2, t.dom[key_of('a')], t.dom[key_of('b')]])


# ====================================================================================================== __getitem__(list of booleans)
def mask_obligations(ctx, m):
    """dictable.__getitem__ for a list of booleans with one entry per row (the shape inc / exc hand over): the result keeps all columns, is rectangular
    with count_true(mask, len) rows, and the row of every true entry i sits at position count_true(mask, i) - with the laws of count_true
    (count_lemmas: ranks of true entries strictly increase, every position below the count is the rank of a true entry) that is: exactly the rows
    whose entry is true, in order.  Callees by contract: __iter__ (proved above), zipper (C19), the constructor from records / ([], columns)."""
    fdef = m.func('dictable.__getitem__')
    comps = [c_ for c_ in walk_no_defs(fdef) if isinstance(c_, ast.ListComp) and len(c_.generators) == 1 and c_.generators[0].ifs]
    if len(comps) != 1:
        raise SelectorError('__getitem__: expected one filtered comprehension (rows kept by a boolean mask)')
    comp = comps[0]
    n = Int('N')
    t = fresh_table('self')
    item = mask_list('item')
    M, marr = item.t, item.arrs[0]
    nm = '__getitem__.mask.rows'
    i, p = Ints('i!mk p!mk')
    c = Const('c!mk', Key)
    holder = {}

    def inv(st, entry):
        k, res = st.ghost[nm + '.k'], st.ghost[nm + '.res']
        holder['ex'].fact(cnt_def(marr, k))
        return [('length_is_the_number_of_true_entries_passed', And(res.t == CNT(marr, k), 0 <= res.t, res.t <= k)),
                ('true_entries_passed_rank_below_the_length', ForAll([i], Implies(And(0 <= i, i < k, marr[i] != 0), And(0 <= CNT(marr, i), CNT(marr, i) < res.t)))),
                ('every_kept_record_has_all_columns', ForAll([p], Implies(And(0 <= p, p < res.t), Select(res.doms, p) == t.dom))),
                ('row_of_a_true_entry_sits_at_its_rank', ForAll([i, c], Implies(And(0 <= i, i < k, marr[i] != 0, t.dom[c]),
                                                                                 Select(Select(res.vals, CNT(marr, i)), c) == t.carr[c][i])))]

    spec = LoopSpec(nm, inv)
    rows = Rows(known=[(t, n)])
    ex = Exec(m, [rows, Dictable(m), Tables(), Lists(), TypePreds(extra={'is_arr': ()})], loops={id(comp): spec}, inline=_inline(m), name='__getitem__.mask')
    holder['ex'] = ex
    st = State(env={'self': t})
    pre = [wf(t, n), M == nrows(t, n), M >= 0]           # M == 0: the `len(item) == 0` branch (a table without rows, or the item [])
    st.pc += pre
    ex.fact(cnt_def(marr, IntVal(0)))
    outs = ex.run_function(st, 'dictable.__getitem__', [t, item], {})
    ctx.absorb(ex)
    ctx.record_function(m, 'dictable.__getitem__', fdef, ex.stmts_executed,
                        excluded=['numpy array, dict_keys / dict_values / range items (converted to lists), callable items: bounded only'])
    nret = 0
    for out in outs:
        hy = ex.facts + out.st.pc
        if out.kind != 'return':
            ctx.post('__getitem__.mask.never_raises_for_one_entry_per_row.%s' % out.val, hy, BoolVal(False), kind='safety')
            continue
        nret += 1
        o = out.val
        if o.kind != 'table':
            raise OutOfSubset('mask selection does not return a table')
        for cname, goal in zip(MASK_CLAUSES, mask_contract(t, n, marr, o)):        # the contract callers (C06: inc / exc) rely on, clause by clause
            ctx.post('__getitem__.mask.' + cname, hy, goal)
    if nret == 0:
        raise OutOfSubset('mask selection has no returning path')
    count_lemmas(ctx, '__getitem__.mask')
    ctx.cover('__getitem__.mask.pre', pre + [n == 3, t.dom[key_of('a')], marr[0] == 1, marr[1] == 0, marr[2] == 1])
    ctx.cover('__getitem__.mask.nothing_kept_reachable', pre + [n == 2, t.dom[key_of('a')], marr[0] == 0, marr[1] == 0])


# ====================================================================================================== __getitem__: slice, column name, tuple of names
def _getitem_run(ctx, m, label, item, pre=(), loops=None):
    fdef = m.func('dictable.__getitem__')
    n = Int('N')
    t = fresh_table('self')
    ex = Exec(m, [Slices(), Init(), Rows(known=[(t, n)]), GetItem(), Dictable(m), Tables(), Lists(), TypePreds(extra={'is_arr': ()})], loops=loops or {},
              inline=_inline(m), name='__getitem__.' + label)
    st = State(env={'self': t})
    st.pc += [wf(t, n)] + list(pre)
    outs = ex.run_function(st, 'dictable.__getitem__', [t, item], {})
    ctx.absorb(ex)
    ctx.record_function(m, 'dictable.__getitem__', fdef, ex.stmts_executed)
    return ex, t, n, outs


def slice_obligations(ctx, m):
    """d[a:b:c]: every column is cut by the same slice object; the indices a slice selects depend on the slice and the length only, and all columns have one
    length, so row j of the result is row slice_index(s, N, j) of the table in every column: the table stays rectangular and equals the sliced list of rows."""
    s = Const('SLICE', PySlice)
    ex, t, n, outs = _getitem_run(ctx, m, 'slice', SV('pyslice', s))
    c = Const('c!sl', Key)
    j = Int('j!sl2')
    nret = 0
    for out in outs:
        hy = ex.facts + out.st.pc
        if out.kind != 'return':
            ctx.post('__getitem__.slice.never_raises.%s' % out.val, hy, BoolVal(False), kind='safety')
            continue
        nret += 1
        o = out.val
        hy = hy + [slice_axiom(s, n)]          # axiom instance at the common length (a table without columns has no column to take it from)
        ctx.post('__getitem__.slice.keeps_all_columns', hy, ForAll([c], o.dom[c] == t.dom[c]))
        ctx.post('__getitem__.slice.rectangular_with_the_sliced_number_of_rows', hy, wf(o, SLEN(s, n)))
        ctx.post('__getitem__.slice.row_j_is_the_same_table_row_in_every_column', hy,
                 ForAll([c, j], Implies(And(t.dom[c], 0 <= j, j < SLEN(s, n)), And(0 <= SIDX(s, n, j), SIDX(s, n, j) < n, o.carr[c][j] == t.carr[c][SIDX(s, n, j)]))))
    if nret == 0:
        raise OutOfSubset('slice selection has no returning path')
    ctx.cover('__getitem__.slice.pre', [wf(t, n), n == 3, t.dom[key_of('a')], SLEN(s, 3) == 2])


def column_obligations(ctx, m):
    """d[name]: the stored column when the name is a column, KeyError otherwise (the contract `GetItem` hands to callers)"""
    k = Const('KEY', Key)
    ex, t, n, outs = _getitem_run(ctx, m, 'column', KEY(k))
    nret = nraise = 0
    for out in outs:
        hy = ex.facts + out.st.pc
        if out.kind == 'raise':
            nraise += 1
            ctx.post('__getitem__.column.raises_only_KeyError_and_only_for_a_missing_column', hy, And(BoolVal(out.val == 'KeyError'), Not(t.dom[k])), kind='safety')
            continue
        nret += 1
        r = as_list_sv(out.val, VAL)
        ctx.post('__getitem__.column.is_the_stored_column', hy, And(t.dom[k], r.t == t.clen[k], r.arrs[0] == t.carr[k]))
    if nret == 0 or nraise == 0:
        raise OutOfSubset('column access: expected a returning and a raising path')


def names_obligations(ctx, m):
    """d[[name_1, ..., name_k]] (k >= 1): dictable.__getitem__ -> dictattr.__getitem__ (inlined from _dictattr.py, is_rng from _as_list.py) -> the constructor with
    keyword columns -> the constructor from a table.  The result has exactly the listed columns, each as it was: the projection keeps the rows."""
    fdef = m.func('dictable.__getitem__')
    md, ma = ctx.mod('_dictattr'), ctx.mod('_as_list')
    inline = _inline(m)
    inline['dictattr.__getitem__'] = (md, md.func('dictattr.__getitem__'))
    inline['is_rng'] = (ma, ma.func('is_rng'))
    n = Int('N')
    t = fresh_table('self')
    item = name_list('item')
    ex = Exec(m, [Names(), Slices(), Init(), Rows(known=[(t, n)]), GetItem(), Dictable(m), Tables(), Lists(), TypePreds(extra={'is_arr': ()})], inline=inline,
              name='__getitem__.names')
    st = State(env={'self': t})
    st.pc += [wf(t, n), item.t >= 1]
    outs = ex.run_function(st, 'dictable.__getitem__', [t, item], {})
    ctx.absorb(ex)
    ctx.record_function(m, 'dictable.__getitem__', fdef, ex.stmts_executed)
    ctx.record_function(md, 'dictattr.__getitem__', inline['dictattr.__getitem__'][1], ex.stmts_executed, excluded=['tuples of keys, dotted names: see C16'])
    c = Const('c!nm', Key)
    missing = Exists([c], And(named(item, c), Not(t.dom[c])))
    nret = 0
    for out in outs:
        hy = ex.facts + out.st.pc
        if out.kind == 'raise':
            ctx.post('__getitem__.names.raises_only_KeyError_and_only_for_a_name_that_is_not_a_column', hy, And(BoolVal(out.val == 'KeyError'), missing), kind='safety')
            continue
        nret += 1
        o = out.val
        if o.kind != 'table':
            raise OutOfSubset('projection does not return a table')
        ctx.post('__getitem__.names.has_exactly_the_listed_columns', hy, And(Not(missing), ForAll([c], o.dom[c] == named(item, c))))
        ctx.post('__getitem__.names.keeps_every_listed_column_as_it_is', hy, ForAll([c], Implies(named(item, c), And(o.clen[c] == t.clen[c], o.carr[c] == t.carr[c]))))
        ctx.post('__getitem__.names.keeps_the_rows', hy, wf(o, n))
    if nret == 0:
        raise OutOfSubset('projection has no returning path')
    ctx.cover('__getitem__.names.pre', [wf(t, n), n == 2, item.t == 1, item.arr[0] == key_of('a'), t.dom[key_of('a')], t.dom[key_of('b')]])


def tuple_obligations(ctx, m):
    """d[(name_1, ..., name_k)] for k = 1..3 column names: the list of the rows' key tuples, one per row, in row order - the key projection that
    _listby (C02, C11) takes as its callee contract.  Key *functions* in the tuple (d[callable]) are not covered."""
    for arity in (1, 2, 3):
        ks = [Const('KEY%d' % i_, Key) for i_ in range(arity)]
        ex, t, n, outs = _getitem_run(ctx, m, 'tuple%d' % arity, T([KEY(k_) for k_ in ks]))
        j = Int('j!tp')
        present = And(*[t.dom[k_] for k_ in ks])
        nret = 0
        for out in outs:
            hy = ex.facts + out.st.pc
            if out.kind == 'raise':
                ctx.post('__getitem__.tuple%d.raises_only_KeyError_and_only_for_a_missing_column' % arity, hy, And(BoolVal(out.val == 'KeyError'), Not(present)), kind='safety')
                continue
            nret += 1
            r = out.val
            if r.kind != 'list' or r.f.get('ety') is None or len(r.arrs) != arity:
                raise OutOfSubset('tuple projection does not return a list of %d-tuples' % arity)
            ctx.post('__getitem__.tuple%d.one_key_tuple_per_row' % arity, hy, And(present, r.t == n))
            ctx.post('__getitem__.tuple%d.jth_tuple_holds_the_jth_cells_of_the_named_columns' % arity, hy,
                     ForAll([j], Implies(And(0 <= j, j < n), And(*[r.arrs[i_][j] == t.carr[ks[i_]][j] for i_ in range(arity)]))))
        if nret == 0:
            raise OutOfSubset('tuple projection has no returning path')


# ====================================================================================================== deleting a column
def delete_obligations(ctx, m):
    """del d[name] (dictattr.__delitem__, inherited), del d.name (dictable.__delattr__) and d - name (dictattr.__sub__, inherited): the named column goes,
    every other column is untouched, so the table stays rectangular; deleting a missing column raises KeyError (del) or is a no-op (-)."""
    md = ctx.mod('_dictattr')
    n = Int('N')
    k = Const('KEY', Key)
    c = Const('c!del', Key)

    def others_untouched(a, b):
        return ForAll([c], Implies(c != k, And(a.dom[c] == b.dom[c], a.clen[c] == b.clen[c], a.carr[c] == b.carr[c])))

    runs = [('__delitem__', md, 'dictattr.__delitem__', 'dict', True), ('__delattr__', m, 'dictable.__delattr__', 'contract', True),
            ('__sub__', md, 'dictattr.__sub__', 'contract', False)]
    for label, mod_, qual, level, may_raise in runs:
        fdef = mod_.func(qual)
        t = fresh_table('self')
        ex = Exec(mod_, [Deletes(level), Slices(), Tables(), Lists(), TypePreds()], inline={qual: (mod_, fdef)}, name=label)
        st = State(env={'self': t})
        st.pc.append(wf(t, n))
        outs = ex.run_function(st, qual, [t, KEY(k)], {})
        ctx.absorb(ex)
        ctx.record_function(mod_, qual, fdef, ex.stmts_executed, excluded=['tuple paths, lists of names, dotted and underscore names: bounded only'])
        nret = nraise = 0
        for out in outs:
            hy = ex.facts + out.st.pc
            if out.kind == 'raise':
                nraise += 1
                ctx.post('%s.raises_only_KeyError_for_a_missing_column_and_leaves_the_table' % label, hy,
                         And(BoolVal(out.val == 'KeyError' and may_raise), Not(t.dom[k]), same_table(out.st.env['self'], t)), kind='safety')
                continue
            nret += 1
            r = out.st.env['self'] if may_raise else out.val
            if r.kind != 'table':
                raise OutOfSubset('%s does not yield a table' % label)
            ctx.post('%s.the_named_column_is_gone' % label, hy, And(Not(r.dom[k]), t.dom[k]) if may_raise else Not(r.dom[k]))
            ctx.post('%s.other_columns_untouched' % label, hy, others_untouched(r, t))
            ctx.post('%s.table_stays_rectangular' % label, hy, wf(r, n))
        if nret == 0 or (may_raise and nraise == 0):
            raise OutOfSubset('%s: expected %s' % (label, 'a returning and a raising path' if may_raise else 'a returning path'))


# ====================================================================================================== d1 + d2 (concat of two tables)
def concat_obligations(ctx, m):
    """dictable.__add__ -> dictable.concat(self, other) with as_list inlined, dict_concat and the constructor by their contracts: the result has the
    union of the columns, len(d1) + len(d2) rows; the rows of d1 come first, then those of d2, each in order; a cell of a column the operand does
    not have is None.  concat of more than two tables is the same code with a longer sum(): bounded only."""
    ma = ctx.mod('_as_list')
    inline = _inline(m)
    for q in ('__add__', 'concat'):
        inline['dictable.' + q] = (m, m.func('dictable.' + q))
    inline['as_list'] = (ma, ma.func('as_list'))
    n0, n1 = Ints('N0 N1')
    t0, t1 = fresh_table('self'), fresh_table('other')
    rows = Rows(known=[(t0, n0), (t1, n1)])
    n_ob = len(ctx.obligations)
    ex = Exec(m, [Concats(rows), Slices(), Init(), rows, Dictable(m), Tables(), Lists(), TypePreds(extra={'is_arr': ()})], inline=inline, name='__add__')
    st = State(env={'self': t0})
    pre = [wf(t0, n0), wf(t1, n1)]
    st.pc += pre
    outs = ex.run_function(st, 'dictable.__add__', [t0, t1], {})
    ctx.absorb(ex)
    ctx.record_function(m, 'dictable.__add__', inline['dictable.__add__'][1], ex.stmts_executed)
    ctx.record_function(m, 'dictable.concat', inline['dictable.concat'][1], ex.stmts_executed, excluded=['other than two operands: bounded only'])
    R0, R1 = nrows(t0, n0), nrows(t1, n1)
    c = Const('c!cat', Key)
    j = Int('j!cat')
    nret = 0
    for out in outs:
        hy = ex.facts + out.st.pc
        if out.kind != 'return':
            ctx.post('__add__.never_raises.%s' % out.val, hy, BoolVal(False), kind='safety')
            continue
        nret += 1
        r = out.val
        if r.kind != 'table':
            raise OutOfSubset('d1 + d2 does not return a table')
        ctx.post('__add__.columns_are_the_union', hy, ForAll([c], r.dom[c] == Or(t0.dom[c], t1.dom[c])))
        ctx.post('__add__.rectangular_with_the_rows_of_both', hy, wf(r, R0 + R1))
        ctx.post('__add__.rows_of_the_left_operand_come_first_in_order_absent_cells_None', hy,
                 ForAll([c, j], Implies(And(r.dom[c], 0 <= j, j < R0), r.carr[c][j] == If(t0.dom[c], t0.carr[c][j], NONEV))))
        ctx.post('__add__.rows_of_the_right_operand_follow_in_order_absent_cells_None', hy,
                 ForAll([c, j], Implies(And(r.dom[c], R0 <= j, j < R0 + R1), r.carr[c][j] == If(t1.dom[c], t1.carr[c][j - R0], NONEV))))
    if nret == 0:
        raise OutOfSubset('d1 + d2 has no returning path')
    ground_section(ctx, n_ob)
    ka, kb = key_of('a'), key_of('b')
    ctx.cover('__add__.pre_with_an_absent_column', pre + [n0 == 2, n1 == 1, t0.dom[ka], t0.dom[kb], t1.dom[ka], Not(t1.dom[kb])])


# ====================================================================================================== update
def update_obligations(ctx, m):
    """dictable.update(other) for a mapping whose columns all fit (they have len(self) entries, or self has no column yet and they are equally long): every
    column of other is stored as it is, the other columns of self are untouched, the table stays rectangular.  The loop over other.items() carries the
    invariant 'the keys passed so far are stored, the rest of the table is as before'; self[k] = v by the contract of __setitem__."""
    fdef = m.func('dictable.update')
    loop = select(fdef, 'For#0')
    n, L = Int('N'), Int('L')
    t0 = fresh_table('self')
    other = fresh_colmap('other')
    O = other.dom
    c = Const('c!up', Key)
    rows_now = nrows(t0, n)
    final_rows = If(no_columns(t0), L, n)

    def passed(cc, p):
        return And(O[cc], SP(O, cc) < p)

    def clauses(t, p):
        return [('keys_passed_are_stored_as_they_are', ForAll([c], Implies(passed(c, p), And(t.dom[c], t.clen[c] == other.clen[c], t.carr[c] == other.carr[c])))),
                ('the_rest_is_as_before', ForAll([c], Implies(Not(passed(c, p)), And(t.dom[c] == t0.dom[c], t.clen[c] == t0.clen[c], t.carr[c] == t0.carr[c])))),
                ('position_in_range', And(0 <= p, p <= NK(O)))]

    def inv(st, entry):
        return clauses(st.env['self'], st.ghost['update.For0.k'])

    spec = LoopSpec('update.For0', inv)
    n_ob = len(ctx.obligations)
    ex = Exec(m, [Updates(final_rows), Init(), Tables(), Lists(), TypePreds()], loops={id(loop): spec}, inline=_inline(m) | {'dictable.update': (m, fdef)}, name='update')
    st = State(env={'self': t0})
    pre = [wf(t0, n), wf(other, L), Or(no_columns(t0), L == n)]
    st.pc += pre
    outs = ex.run_function(st, 'dictable.update', [t0, other], {})
    ctx.absorb(ex)
    ctx.record_function(m, 'dictable.update', fdef, ex.stmts_executed, excluded=['values that need broadcasting or do not fit (ValueError): see __setitem__'])
    nret = 0
    for out in outs:
        hy = ex.facts + out.st.pc
        if out.kind != 'return':
            ctx.post('update.never_raises_when_the_columns_fit.%s' % out.val, hy, BoolVal(False), kind='safety')
            continue
        nret += 1
        t = out.st.env['self']
        ctx.post('update.every_column_of_other_is_stored_as_it_is', hy, ForAll([c], Implies(O[c], And(t.dom[c], t.clen[c] == other.clen[c], t.carr[c] == other.carr[c]))))
        ctx.post('update.other_columns_untouched', hy, ForAll([c], Implies(Not(O[c]), And(t.dom[c] == t0.dom[c], t.clen[c] == t0.clen[c], t.carr[c] == t0.carr[c]))))
        ctx.post('update.table_stays_rectangular', hy, wf(t, If(no_columns(other), n, final_rows)))
    if nret == 0:
        raise OutOfSubset('update has no returning path')
    ground_section(ctx, n_ob, rounds=3)
    ctx.cover('update.pre', pre + [n == 2, t0.dom[key_of('a')], O[key_of('b')]])


# ====================================================================================================== the constructor
def _new_table():
    return SV('table', None, dom=z3.K(Key, False), clen=z3.K(Key, IntVal(0)), carr=z3.Array(fresh_name('new_col'), Key, z3.ArraySort(z3.IntSort(), Val)),
              cls='dictable', fresh=True)


def constructor_obligations(ctx, m):
    """dictable.__init__ with _data_columns_as_dict, _value and as_list inlined from the source, for the argument shapes the selection forms and
    concat use: a dict of equally long lists, ([], column names), a list of records (dict_concat by its contract), and no argument.  These are
    the contracts `Rows.call_value` hands to callers of `type(self)(...)`."""
    fdef = m.func('dictable.__init__')
    ma = ctx.mod('_as_list')
    inline = _inline(m)
    inline['_data_columns_as_dict'] = (m, m.func('_data_columns_as_dict'))
    inline['as_list'] = (ma, ma.func('as_list'))
    t = fresh_table('cols_of')
    cm = fresh_colmap('data')
    rl = fresh_rowlist('data')
    shapes = [('columns', cm, NONE, [equally_long(cm)], lambda o: [('stores_exactly_the_given_columns', same_columns(o, cm))]),
              ('empty', SV('list', IntVal(0), ety=None, arrs=None), SV('tkeys', None, of=t), [],
               lambda o: [('has_exactly_the_given_columns_and_no_row_%d' % i_, f) for i_, f in enumerate(empty_with_columns_contract(t.dom, o))]),
              ('records', rl, NONE, [rl.t >= 0],
               lambda o: [('no_record_no_column', records_contract(rl, o)[0]), ('one_key_set_columns_list_the_records_in_order', records_contract(rl, o)[1]),
                          ('several_key_sets_union_with_None_for_absent_cells', records_contract(rl, o)[2])]),
              ('nothing', NONE, NONE, [], lambda o: [('has_no_column', no_columns(o))]),
              ('keywords', NONE, NONE, [equally_long(cm)], lambda o: [('stores_exactly_the_given_columns', same_columns(o, cm))])]
    for label, data, columns, pre, posts in shapes:
        ex = Exec(m, [Init(), Rows(), Dictable(m), Tables(), Lists(), TypePreds(extra={'is_arr': ()}), ConcreteStr(m)], inline=inline, name='constructor.' + label)
        st = State()
        st.pc += pre
        outs = ex.run_function(st, 'dictable.__init__', [_new_table(), data, columns], {'**': cm} if label == 'keywords' else {})
        ctx.absorb(ex)
        ctx.record_function(m, 'dictable.__init__', fdef, ex.stmts_executed, excluded=['keyword columns, scalar / length-1 broadcast on construction: bounded only'])
        ctx.record_function(m, '_data_columns_as_dict', inline['_data_columns_as_dict'][1], ex.stmts_executed,
                            excluded=['paths, DataFrames, cursors, lists of pairs / of lists: bounded only'])
        nret = 0
        for out in outs:
            hy = ex.facts + out.st.pc
            if out.kind != 'return':
                ctx.post('constructor.%s.never_raises.%s' % (label, out.val), hy, BoolVal(False), kind='safety')
                continue
            nret += 1
            for cname, goal in posts(out.st.env['self']):
                ctx.post('constructor.%s.%s' % (label, cname), hy, goal)
        if nret == 0:
            raise OutOfSubset('constructor (%s) has no returning path' % label)
        ctx.cover('constructor.%s.pre' % label, pre)


# ====================================================================================================== the constructor from rows + headers
def _battery(kind):
    """replay of the rows + headers / integer-list obligations: a fixed native battery of the clause family (rac/C01_ded.py), no model values needed"""
    return lambda model: dict(kind=kind)


def _post_all(ctx, n0, kind):
    """obligations generated since n0 (posted here or raised inside the executor) are replayed by the native battery of their family"""
    for ob in ctx.obligations[n0:]:
        if ob.kind != 'syntactic':
            ob.meta['replay'] = _battery(kind)
            ob.meta['replay_without_model'] = True


def rows_constructor_obligations(ctx, m):
    """dictable(data = list of n row tuples, columns = m distinct names), every row of length m - dictable.__init__ with _data_columns_as_dict, _value and
    as_list inlined from the source; zipper by its contract (C19): the table has exactly the named columns, each with n entries, and the column of the
    p-th name lists row[i][p] for i = 0..n-1; for n == 0 these are the named columns, all empty.  Run for the names given as a python list and as the
    keys() of a dict (what __getitem__ hands over).  This is the contract `RowsHeaders.call_value` gives to callers of `type(self)(rows, names)`."""
    fdef = m.func('dictable.__init__')
    ma = ctx.mod('_as_list')
    inline = _inline(m)
    inline['_data_columns_as_dict'] = (m, m.func('_data_columns_as_dict'))
    inline['as_list'] = (ma, ma.func('as_list'))
    W = Int('WIDTH')
    for label in ('names', 'keys'):
        n0 = len(ctx.obligations)
        rows, rl, cells = fresh_rows('data')
        if label == 'names':
            columns = name_list('columns')
        else:
            columns = SV('tkeys', None, of=fresh_table('cols_of'))
        ex = Exec(m, [RowsHeaders(), Names(), Init(), Rows(), Dictable(m), Tables(), Lists(), TypePreds(extra={'is_arr': ()}), ConcreteStr(m)], inline=inline,
                  name='constructor.rows.' + label)
        ks = keyseq(ex, columns)
        pre = [rows.t >= 0, W >= 0, rows_of_width(rows, W), ks.m == W, distinct_names(ks)]
        st = State()
        st.pc += pre
        outs = ex.run_function(st, 'dictable.__init__', [_new_table(), rows, columns], {})
        ctx.absorb(ex)
        ctx.record_function(m, 'dictable.__init__', fdef, ex.stmts_executed)
        ctx.record_function(m, '_data_columns_as_dict', inline['_data_columns_as_dict'][1], ex.stmts_executed)
        nret = 0
        for out in outs:
            hy = ex.facts + out.st.pc
            if out.kind != 'return':
                ctx.post('constructor.rows.%s.never_raises.%s' % (label, out.val), hy, BoolVal(False), kind='safety')
                continue
            nret += 1
            for cname, goal in zip(ROWS_CLAUSES, rows_headers_contract(ks, rows, out.st.env['self'])):
                ctx.post('constructor.rows.%s.%s' % (label, cname), hy, goal)
        if nret == 0:
            raise OutOfSubset('constructor (rows + headers, %s) has no returning path' % label)
        ground_section(ctx, n0, rounds=3, lazy=True)
        _post_all(ctx, n0, 'rows_headers')
        ctx.cover('constructor.rows.%s.pre' % label, pre + [rows.t == 2, W == 2])
        ctx.cover('constructor.rows.%s.no_row_reachable' % label, pre + [rows.t == 0, W == 2])


def record_constructor_obligations(ctx, m):
    """dictable(one record) - a Dict / dict whose cells are None, python lists or scalars (what concat makes of every record it is given, so what unlist
    does to every row): dictable.__init__ with _data_columns_as_dict and _value inlined, as_list (C19) and lens (C19) by contract.  Two list cells whose
    lengths differ and are both other than 1 raise ValueError; otherwise the table has the keys of the record as columns, all of one length (that of a
    cell not of length 1 if there is one, else 1), a cell of that length is stored as it is and a scalar / None / one-element list is repeated:
    the broadcast on construction."""
    fdef = m.func('dictable.__init__')
    inline = _inline(m)
    inline['_data_columns_as_dict'] = (m, m.func('_data_columns_as_dict'))
    n0 = len(ctx.obligations)
    rec = rowmap(z3.Array('REC_dom', Key, z3.BoolSort()), z3.Array('REC_val', Key, Val))
    ex = Exec(m, [RecordCells(), Init(), Rows(), Dictable(m), Tables(), Lists(), TypePreds(extra={'is_arr': ()}), ConcreteStr(m)], inline=inline, name='constructor.record')
    for f in cell_axioms():
        ex.fact(f)
    st = State()
    outs = ex.run_function(st, 'dictable.__init__', [_new_table(), rec, NONE], {})
    ctx.absorb(ex)
    ctx.record_function(m, 'dictable.__init__', fdef, ex.stmts_executed)
    ctx.record_function(m, '_data_columns_as_dict', inline['_data_columns_as_dict'][1], ex.stmts_executed)
    ctx.record_function(m, '_value', inline['_value'][1], ex.stmts_executed, excluded=['tuple, range and dict view values: path precondition of the record sections'])
    clash = record_clash(rec)
    nret = nraise = 0
    for out in outs:
        hy = ex.facts + out.st.pc
        if out.kind != 'return':
            nraise += 1
            ctx.post('constructor.record.raises_only_ValueError_and_only_for_list_cells_of_different_lengths', hy, And(BoolVal(out.val == 'ValueError'), clash), kind='safety')
            continue
        nret += 1
        ctx.post('constructor.record.returns_only_when_the_list_cells_have_one_length', hy, Not(clash))
        for cname, goal in zip(RECORD_CLAUSES, record_contract(rec, out.st.env['self'])):
            ctx.post('constructor.record.' + cname, hy, goal)
    ground_section(ctx, n0, rounds=3, lazy=True)
    _post_all(ctx, n0, 'record')
    if nret == 0 or nraise == 0:
        raise OutOfSubset('constructor (one record): expected a returning and a raising path')
    ka, kb = key_of('a'), key_of('b')
    va, vb = Select(rec.vals, ka), Select(rec.vals, kb)
    ctx.cover('constructor.record.broadcast_reachable', cell_axioms() + [Select(rec.dom, ka), Select(rec.dom, kb), ISL(va), VLEN(va) == 3, Not(ISL(vb)), vb != NONEV])
    ctx.cover('constructor.record.clash_reachable', cell_axioms() + [Select(rec.dom, ka), Select(rec.dom, kb), ISL(va), VLEN(va) == 3, ISL(vb), VLEN(vb) == 2, va != NONEV, vb != NONEV])


# ====================================================================================================== __getitem__(list of ints)
def ints_obligations(ctx, m):
    """d[[i_0, ..., i_k-1]] (k >= 1 integers; [] is the empty-list branch of the mask section): `values = list(zip(*self.values()))` - the list of the
    row tuples of a rectangular table (axiom: transposition of the columns) -, `[values[i] for i in item]` with Python list indexing, and the
    constructor from rows + headers by its contract (constructor.rows.*).  The result has all the columns of the receiver and k rows, row j being row
    item[j] of the receiver (a negative index counts from the end); IndexError iff some index is outside -len(d) .. len(d)-1; d is left as it was."""
    fdef = m.func('dictable.__getitem__')
    n = Int('N')
    t = fresh_table('self')
    item = fresh_list(INT, 'item')
    item.f['elems'] = 'int'
    L, iarr = item.t, item.arrs[0]
    n0 = len(ctx.obligations)
    ex = Exec(m, [RowsHeaders(construct='contract'), Slices(), Init(), Rows(known=[(t, n)]), GetItem(), Dictable(m), Tables(), Lists(), TypePreds(extra={'is_arr': ()})],
              inline=_inline(m), name='__getitem__.ints')
    st = State(env={'self': t})
    pre = [wf(t, n), L >= 1]
    st.pc += pre
    outs = ex.run_function(st, 'dictable.__getitem__', [t, item], {})
    ctx.absorb(ex)
    ctx.record_function(m, 'dictable.__getitem__', fdef, ex.stmts_executed)
    R = nrows(t, n)
    j = Int('j!in')
    c = Const('c!in', Key)
    in_range = lambda x: And(-R <= x, x < R)
    row_of = lambda x: If(x < 0, x + R, x)
    nret = nraise = 0
    for out in outs:
        hy = ex.facts + out.st.pc
        if out.kind == 'raise':
            nraise += 1
            ctx.post('__getitem__.ints.raises_only_IndexError_and_only_for_an_index_out_of_range', hy,
                     And(BoolVal(out.val == 'IndexError'), Exists([j], And(0 <= j, j < L, Not(in_range(iarr[j])))), same_table(out.st.env['self'], t)), kind='safety')
            continue
        nret += 1
        o = out.val
        if o.kind != 'table':
            raise OutOfSubset('integer-list selection does not return a table')
        ctx.post('__getitem__.ints.returns_only_when_every_index_is_in_range', hy, ForAll([j], Implies(And(0 <= j, j < L), in_range(iarr[j]))))
        ctx.post('__getitem__.ints.keeps_all_columns', hy, ForAll([c], o.dom[c] == t.dom[c]))
        ctx.post('__getitem__.ints.rectangular_with_one_row_per_index', hy, wf(o, L))
        ctx.post('__getitem__.ints.row_j_is_row_item_j_of_the_receiver', hy,
                 ForAll([c, j], Implies(And(t.dom[c], 0 <= j, j < L), o.carr[c][j] == t.carr[c][row_of(iarr[j])])))
        ctx.post('__getitem__.ints.receiver_unchanged', hy, same_table(out.st.env['self'], t))
    ground_section(ctx, n0, rounds=3, lazy=True)
    _post_all(ctx, n0, 'getitem_ints')
    if nret == 0 or nraise == 0:
        raise OutOfSubset('integer-list selection: expected a returning and a raising path')
    ka = key_of('a')
    ctx.cover('__getitem__.ints.pre', pre + [n == 3, t.dom[ka], L == 2, iarr[0] == 2, iarr[1] == -1])
    ctx.cover('__getitem__.ints.out_of_range_reachable', pre + [n == 3, t.dom[ka], L == 1, iarr[0] == 3])


# ====================================================================================================== dict_concat
def dict_concat_obligations(ctx, m):
    """dict_concat(list of records), whole body with as_list inlined: {} for no record; the one-record shortcut; records with one common key set
    (sorted items, transposed, zipped with the sorted keys); otherwise the union of the key sets with d.get(key).  Postcondition = the contract
    the constructor section uses (`records_contract`)."""
    fdef = m.func('dict_concat')
    ma = ctx.mod('_as_list')
    inline = {'dict_concat': (m, fdef), 'as_list': (ma, ma.func('as_list'))}
    rl = fresh_rowlist('dicts')
    rl.f['absent'] = z3.Array('ABSENT', z3.IntSort(), Val)         # what record j's own get() returns for a missing key (None for a Dict)
    n0 = len(ctx.obligations)
    ex = Exec(m, [Concat(), Init(dict_concat=None), Rows(), Lists(), TypePreds()], inline=inline, name='dict_concat')
    st = State()
    st.pc.append(rl.t >= 0)
    outs = ex.run_function(st, 'dict_concat', [rl], {})
    ctx.absorb(ex)
    ctx.record_function(m, 'dict_concat', fdef, ex.stmts_executed)
    ctx.record_function(ma, 'as_list', inline['as_list'][1], ex.stmts_executed, excluded=['arguments other than a tuple holding one list: see C19'])
    nret = 0
    for out in outs:
        hy = ex.facts + out.st.pc
        if out.kind != 'return':
            ctx.post('dict_concat.never_raises.%s' % out.val, hy, BoolVal(False), kind='safety')
            continue
        nret += 1
        o = out.val
        if o.kind != 'colmap':
            raise OutOfSubset('dict_concat returns %s' % o.kind)
        none_, same, union = records_contract(rl, o)
        ctx.post('dict_concat.no_record_no_key', hy, none_)
        ctx.post('dict_concat.one_key_set.column_k_lists_record_k_in_order', hy, same)
        ctx.post('dict_concat.several_key_sets.union_of_keys_and_None_for_absent', hy, union)
    ground_section(ctx, n0)
    if nret < 4:
        raise OutOfSubset('dict_concat: expected the four returning branches (none, one record, one key set, several key sets), got %d' % nret)
    j = Int('j!cv')
    ka, kb = key_of('a'), key_of('b')
    ab = Store(Store(z3.K(Key, False), ka, True), kb, True)
    ctx.cover('dict_concat.one_key_set_reachable', [rl.t == 2, Select(rl.doms, 0) == ab, Select(rl.doms, 1) == ab])
    ctx.cover('dict_concat.several_key_sets_reachable', [rl.t == 2, Select(Select(rl.doms, 0), ka), Not(Select(Select(rl.doms, 1), ka))])


def build(ctx):
    m = ctx.mod('_dictable')
    inline = {'_value': (m, m.func('_value'))}
    for f in ('__len__', '__setitem__', 'get', '__getitem__'):
        inline['dictable.' + f] = (m, m.func('dictable.' + f))
    n = Int('N')

    def th():
        return [Dictable(m), Tables(), Lists(), TypePreds(extra={'is_arr': ()})]

    def start(extra=()):
        t = fresh_table('self')
        st = State(env={'self': t})
        st.pc += [wf(t, n)] + list(extra)
        return t, st

    # ------------------------------------------------------------------ __len__ and shape
    def len_section():
        fdef = m.func('dictable.__len__')
        t, st = start()
        ex = Exec(m, th(), inline=inline, name='__len__')
        outs = ex.run_function(st, 'dictable.__len__', [t], {})
        ctx.absorb(ex); ctx.record_function(m, 'dictable.__len__', fdef, ex.stmts_executed)
        for out in outs:
            if out.kind != 'return':
                ctx.post('__len__.never_raises_on_a_rectangular_table', ex.facts + out.st.pc, BoolVal(False), kind='safety')
            else:
                ctx.post('__len__.is_the_common_column_length', ex.facts + out.st.pc, out.val.t == nrows(t, n))
        ctx.cover('__len__.pre', [wf(t, n), n == 3, t.dom[key_of('a')]])
    ctx.guarded('__len__', len_section)

    # ------------------------------------------------------------------ __setitem__
    def setitem_section():
        fdef = m.func('dictable.__setitem__')
        t, st = start()
        key = KEY(Const('KEY', Key))
        value = fresh_list(VAL, 'value')
        st.pc.append(value.t >= 0)
        ex = Exec(m, th(), inline=inline, name='__setitem__')
        outs = ex.run_function(st, 'dictable.__setitem__', [t, key, value], {})
        ctx.absorb(ex)
        ctx.record_function(m, 'dictable.__setitem__', fdef, ex.stmts_executed, excluded=['integer column names (str(key)) and non-list values (_value): the value is a list'])
        L = nrows(t, n)
        fits = Or(value.t == L, no_columns(t))
        nret = nraise = 0
        k = Const('k!post', Key)
        j = Int('j!post')
        for out in outs:
            hy = ex.facts + out.st.pc
            if out.kind == 'raise':
                nraise += 1
                ctx.post('__setitem__.raises_only_ValueError', hy, BoolVal(out.val == 'ValueError'), kind='safety')
                ctx.post('__setitem__.raise.only_when_the_length_does_not_fit', hy, And(Not(fits), value.t != 1))
                ctx.post('__setitem__.raise.table_unchanged_and_rectangular', hy, And(same_table(out.st.env['self'], t), wf(out.st.env['self'], n)))
                continue
            nret += 1
            t2 = out.st.env['self']
            n2 = If(no_columns(t), value.t, n)
            ctx.post('__setitem__.keeps_the_table_rectangular', hy, wf(t2, n2))
            ctx.post('__setitem__.returns_normally_exactly_when_the_length_fits_or_is_1', hy, Or(fits, value.t == 1))
            ctx.post('__setitem__.sets_the_column_and_leaves_the_others', hy,
                     And(t2.dom[key.t], ForAll([k], Implies(k != key.t, And(t2.dom[k] == t.dom[k], t2.clen[k] == t.clen[k], t2.carr[k] == t.carr[k])))))
            ctx.post('__setitem__.column_holds_the_value_or_its_broadcast', hy,
                     If(fits, And(t2.clen[key.t] == value.t, t2.carr[key.t] == value.arrs[0]),
                        ForAll([j], Implies(And(0 <= j, j < n2), t2.carr[key.t][j] == value.arrs[0][0]))))
        if nret == 0 or nraise == 0:
            raise OutOfSubset('__setitem__: expected both a normal and a raising path')
        ctx.cover('__setitem__.misfit_reachable', [wf(t, n), t.dom[key_of('a')], n == 3, value.t == 2])
    ctx.guarded('__setitem__', setitem_section)

    # ------------------------------------------------------------------ get
    def get_section():
        fdef = m.func('dictable.get')
        t, st = start()
        key = KEY(Const('KEY', Key))
        dflt = V(Const('DEFAULT', Val))
        ex = Exec(m, th() + [GetItem()], inline=inline, name='get')
        outs = ex.run_function(st, 'dictable.get', [t, key, dflt], {})
        ctx.absorb(ex); ctx.record_function(m, 'dictable.get', fdef, ex.stmts_executed)
        j = Int('j!get')
        for out in outs:
            hy = ex.facts + out.st.pc
            if out.kind != 'return':
                ctx.post('get.never_raises', hy, BoolVal(False), kind='safety')
                continue
            r = as_list_sv(out.val, VAL)
            ctx.post('get.has_one_entry_per_row', hy, r.t == nrows(t, n))
            ctx.post('get.is_the_column_or_the_default_repeated', hy,
                     If(t.dom[key.t], r.arrs[0] == t.carr[key.t], ForAll([j], Implies(And(0 <= j, j < r.t), r.arrs[0][j] == dflt.t))))
    ctx.guarded('get', get_section)

    # ------------------------------------------------------------------ d[i][c] == d[c][i]
    def row_section():
        fdef = m.func('dictable.__getitem__')
        t, st = start()
        i = Int('I')
        st.pc += [0 <= i, i < n, Not(no_columns(t))]
        ex = Exec(m, th(), inline=inline, name='__getitem__.int')
        outs = ex.run_function(st, 'dictable.__getitem__', [t, I(i)], {})
        ctx.absorb(ex)
        ctx.record_function(m, 'dictable.__getitem__', fdef, ex.stmts_executed,
                            excluded=['callable items: bounded only; this run: item is an int'])
        c = Const('c!row', Key)
        nret = 0
        for out in outs:
            hy = ex.facts + out.st.pc
            if out.kind != 'return':
                ctx.post('__getitem__.int.never_raises_in_range', hy, BoolVal(False), kind='safety')
                continue
            nret += 1
            row = out.val
            if row.kind != 'rowmap':
                raise OutOfSubset('row access does not return a mapping')
            ctx.post('__getitem__.int.row_has_the_columns_as_keys', hy, ForAll([c], row.dom[c] == t.dom[c]))
            ctx.post('__getitem__.int.row_cell_equals_column_cell', hy, ForAll([c], Implies(t.dom[c], row.vals[c] == t.carr[c][i])))
        if nret == 0:
            raise OutOfSubset('integer row access has no returning path')
    ctx.guarded('__getitem__.int', row_section)
    ctx.guarded('__iter__', lambda: iter_obligations(ctx, m))
    ctx.guarded('__getitem__.mask', lambda: mask_obligations(ctx, m))
    ctx.guarded('__getitem__.slice', lambda: slice_obligations(ctx, m))
    ctx.guarded('__getitem__.column', lambda: column_obligations(ctx, m))
    ctx.guarded('__getitem__.tuple', lambda: tuple_obligations(ctx, m))
    ctx.guarded('__getitem__.names', lambda: names_obligations(ctx, m))
    ctx.guarded('delete', lambda: delete_obligations(ctx, m))
    ctx.guarded('update', lambda: update_obligations(ctx, m))
    ctx.guarded('__add__', lambda: concat_obligations(ctx, m))
    ctx.guarded('constructor', lambda: constructor_obligations(ctx, m))
    ctx.guarded('constructor.rows', lambda: rows_constructor_obligations(ctx, m))
    ctx.guarded('constructor.record', lambda: record_constructor_obligations(ctx, m))
    ctx.guarded('__getitem__.ints', lambda: ints_obligations(ctx, m))
    ctx.guarded('dict_concat', lambda: dict_concat_obligations(ctx, m))
    ctx.trust('the induction over operation histories (every proved operation keeps wf and its model clause; chaining is an argument) and the operations listed as bounded only in the module docstring')

    # ------------------------------------------------------------------ frame: operations that return a new object never alter their operands
    def frame_section():
        from pyvc import own
        own.post_all(ctx, own.table_report(PROP), replay=frame_replay)
    ctx.guarded('frame', frame_section)

class GetItem:
    """self[key] for a column name goes through dictable.__getitem__ -> dict.__getitem__ (taken at the dict level here)"""

    def subscript(self, ex, st, e, recv, idx):
        if recv.kind == 'table' and idx.kind in ('key',):
            ex.use('callee contract:dictable.__getitem__(column name) is the stored column (dict lookup)')
            ex.raise_if(st, Not(recv.dom[idx.t]), 'KeyError')
            return column(recv, idx.t)
        return NotImplemented

    def expr(self, ex, st, e):
        return NotImplemented


def frame_replay(d):
    """replay description of a failed frame obligation: the native re-check looks at the receiver / operands before and after the call"""
    return dict(kind='frame', name=d['name'], where=d['where'], detail=d['detail'][:300])
