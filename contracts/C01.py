"""C01 - dictable behaves as a rectangular list of records.

Representation invariant  wf(d, n): every column is a list of length n.  Functions under contract (real source):
  dictable.__setitem__   fits / first column of an empty table / length-1 broadcast keep wf; a misfit raises ValueError before anything is stored
  dictable.__len__, shape
  dictable.get           the column, or `[default] * len(self)`
  dictable.__getitem__   integer row access: d[i][c] == d[c][i] for every column c (row = dict comprehension over the columns)
Callee contracts: lens (proved on its body in C19), _value / as_list identity on lists (C19).
Everything else named in the property (construction forms, masks, integer lists, slices, concat, relabel, do, derived columns, whole
operation histories, operands unchanged) is covered by the bounded stand-in rac/C01.py only.
"""
import ast
import z3
from z3 import And, Or, Not, If, Implies, Int, Ints, IntVal, BoolVal, ForAll, Exists, Const, Lambda, Select, Store

from pyvc.front import select, SelectorError, OutOfSubset
from pyvc.symex import Exec, State
from pyvc.theories import TypePreds
from pyvc.th_lists import Lists, Val, VAL, fresh_list, V, as_list_sv
from pyvc.th_tables import Tables, Key, KEY, fresh_table, wf, no_columns, nrows, column, same_table, key_of
from pyvc.sv import SV, I, B, S, T, NONE, fresh_name, fresh_int

PROP = 'C01'
REPLAY_MODULE = 'rac.C01_ded'


class Dictable:
    """what the bodies under contract call on `self` beyond the dict level: len(self) is the real __len__ (inlined)"""

    def __init__(self, m):
        self.m = m

    def call(self, ex, st, e, fname, args, kwargs):
        if fname == 'len' and len(args) == 1 and args[0].kind == 'table':
            return ex.call_inline_expr(st, 'dictable.__len__', [args[0]], {})
        if fname in ('as_list',) and len(args) == 1 and args[0].kind == 'list':
            ex.use('callee contract:as_list(x) is x for a list (C19)')
            return args[0]
        if fname == 'list' and len(args) == 1 and args[0].kind == 'list':
            return args[0]
        return NotImplemented

    def method(self, ex, st, e, recv, mname, args, kwargs):
        if recv.kind == 'table' and mname == '_dict' and len(args) == 1 and args[0].kind == 'rowmap':
            ex.use('model:self._dict is Dict: a mapping with the given items')
            return args[0]
        return NotImplemented

    def dictcomp(self, ex, st, e):
        # {key: f(key, value) for key, value in self.items()}: a map with the same keys
        if len(e.generators) != 1 or e.generators[0].ifs:
            return NotImplemented
        g = e.generators[0]
        it = ex.eval(st, g.iter)
        if it.kind != 'titems' or not (isinstance(g.target, ast.Tuple) and len(g.target.elts) == 2):
            return NotImplemented
        t = it.f['of']
        kv = Const(fresh_name('k!dc'), Key)
        sub = st.fork(); sub.pending = []
        sub.pc.append(t.dom[kv])
        base = len(sub.pc)
        ex.assign(sub, g.target, T([KEY(kv), column(t, kv)]), None)
        knew = ex.eval(sub, e.key)
        vnew = ex.eval(sub, e.value)
        if knew.kind != 'key' or not z3.eq(knew.t, kv):
            raise OutOfSubset('dict comprehension renames its keys')
        for o in sub.pending:      # the comprehension raises iff some column raises
            cond = And(*o.st.pc[base:]) if len(o.st.pc) > base else BoolVal(True)
            k2 = Const(fresh_name('k!dcr'), Key)
            ex.raise_if(st, Exists([k2], And(t.dom[k2], z3.substitute(cond, (kv, k2)))), o.val)
        ex.use('axiom:{k: f(k, v) for k, v in d.items()} has the keys of d and the values f(k, d[k]); it raises iff some f(k, d[k]) raises')
        if vnew.kind == 'val':
            return SV('rowmap', None, dom=t.dom, vals=Lambda([kv], vnew.t))
        raise OutOfSubset('dict comprehension with %s values' % vnew.kind)


def build(ctx):
    m = ctx.mod('_dictable')
    inline = {'_value': (m, m.func('_value'))}
    for f in ('__len__', '__setitem__', 'get', '__getitem__'):
        inline['dictable.' + f] = (m, m.func('dictable.' + f))
    n = Int('N')

    def th():
        return [Dictable(m), Tables(), Lists(), TypePreds(extra={'is_arr': ()})]

    def start(extra=()):
        t = fresh_table('self')
        st = State(env={'self': t})
        st.pc += [wf(t, n)] + list(extra)
        return t, st

    # ------------------------------------------------------------------ __len__ and shape
    def len_section():
        fdef = m.func('dictable.__len__')
        t, st = start()
        ex = Exec(m, th(), inline=inline, name='__len__')
        outs = ex.run_function(st, 'dictable.__len__', [t], {})
        ctx.absorb(ex); ctx.record_function(m, 'dictable.__len__', fdef, ex.stmts_executed)
        for out in outs:
            if out.kind != 'return':
                ctx.post('__len__.never_raises_on_a_rectangular_table', ex.facts + out.st.pc, BoolVal(False), kind='safety')
            else:
                ctx.post('__len__.is_the_common_column_length', ex.facts + out.st.pc, out.val.t == nrows(t, n))
        ctx.cover('__len__.pre', [wf(t, n), n == 3, t.dom[key_of('a')]])
    ctx.guarded('__len__', len_section)

    # ------------------------------------------------------------------ __setitem__
    def setitem_section():
        fdef = m.func('dictable.__setitem__')
        t, st = start()
        key = KEY(Const('KEY', Key))
        value = fresh_list(VAL, 'value')
        st.pc.append(value.t >= 0)
        ex = Exec(m, th(), inline=inline, name='__setitem__')
        outs = ex.run_function(st, 'dictable.__setitem__', [t, key, value], {})
        ctx.absorb(ex)
        ctx.record_function(m, 'dictable.__setitem__', fdef, ex.stmts_executed, excluded=['integer column names (str(key)) and non-list values (_value): the value is a list'])
        L = nrows(t, n)
        fits = Or(value.t == L, no_columns(t))
        nret = nraise = 0
        k = Const('k!post', Key)
        j = Int('j!post')
        for out in outs:
            hy = ex.facts + out.st.pc
            if out.kind == 'raise':
                nraise += 1
                ctx.post('__setitem__.raises_only_ValueError', hy, BoolVal(out.val == 'ValueError'), kind='safety')
                ctx.post('__setitem__.raise.only_when_the_length_does_not_fit', hy, And(Not(fits), value.t != 1))
                ctx.post('__setitem__.raise.table_unchanged_and_rectangular', hy, And(same_table(out.st.env['self'], t), wf(out.st.env['self'], n)))
                continue
            nret += 1
            t2 = out.st.env['self']
            n2 = If(no_columns(t), value.t, n)
            ctx.post('__setitem__.keeps_the_table_rectangular', hy, wf(t2, n2))
            ctx.post('__setitem__.returns_normally_exactly_when_the_length_fits_or_is_1', hy, Or(fits, value.t == 1))
            ctx.post('__setitem__.sets_the_column_and_leaves_the_others', hy,
                     And(t2.dom[key.t], ForAll([k], Implies(k != key.t, And(t2.dom[k] == t.dom[k], t2.clen[k] == t.clen[k], t2.carr[k] == t.carr[k])))))
            ctx.post('__setitem__.column_holds_the_value_or_its_broadcast', hy,
                     If(fits, And(t2.clen[key.t] == value.t, t2.carr[key.t] == value.arrs[0]),
                        ForAll([j], Implies(And(0 <= j, j < n2), t2.carr[key.t][j] == value.arrs[0][0]))))
        if nret == 0 or nraise == 0:
            raise OutOfSubset('__setitem__: expected both a normal and a raising path')
        ctx.cover('__setitem__.misfit_reachable', [wf(t, n), t.dom[key_of('a')], n == 3, value.t == 2])
    ctx.guarded('__setitem__', setitem_section)

    # ------------------------------------------------------------------ get
    def get_section():
        fdef = m.func('dictable.get')
        t, st = start()
        key = KEY(Const('KEY', Key))
        dflt = V(Const('DEFAULT', Val))
        ex = Exec(m, th() + [GetItem()], inline=inline, name='get')
        outs = ex.run_function(st, 'dictable.get', [t, key, dflt], {})
        ctx.absorb(ex); ctx.record_function(m, 'dictable.get', fdef, ex.stmts_executed)
        j = Int('j!get')
        for out in outs:
            hy = ex.facts + out.st.pc
            if out.kind != 'return':
                ctx.post('get.never_raises', hy, BoolVal(False), kind='safety')
                continue
            r = as_list_sv(out.val, VAL)
            ctx.post('get.has_one_entry_per_row', hy, r.t == nrows(t, n))
            ctx.post('get.is_the_column_or_the_default_repeated', hy,
                     If(t.dom[key.t], r.arrs[0] == t.carr[key.t], ForAll([j], Implies(And(0 <= j, j < r.t), r.arrs[0][j] == dflt.t))))
    ctx.guarded('get', get_section)

    # ------------------------------------------------------------------ d[i][c] == d[c][i]
    def row_section():
        fdef = m.func('dictable.__getitem__')
        t, st = start()
        i = Int('I')
        st.pc += [0 <= i, i < n, Not(no_columns(t))]
        ex = Exec(m, th(), inline=inline, name='__getitem__.int')
        outs = ex.run_function(st, 'dictable.__getitem__', [t, I(i)], {})
        ctx.absorb(ex)
        ctx.record_function(m, 'dictable.__getitem__', fdef, ex.stmts_executed,
                            excluded=['slice, list (names / mask / integer list), column name, tuple and callable items: bounded only; this run: item is an int'])
        c = Const('c!row', Key)
        nret = 0
        for out in outs:
            hy = ex.facts + out.st.pc
            if out.kind != 'return':
                ctx.post('__getitem__.int.never_raises_in_range', hy, BoolVal(False), kind='safety')
                continue
            nret += 1
            row = out.val
            if row.kind != 'rowmap':
                raise OutOfSubset('row access does not return a mapping')
            ctx.post('__getitem__.int.row_has_the_columns_as_keys', hy, ForAll([c], row.dom[c] == t.dom[c]))
            ctx.post('__getitem__.int.row_cell_equals_column_cell', hy, ForAll([c], Implies(t.dom[c], row.vals[c] == t.carr[c][i])))
        if nret == 0:
            raise OutOfSubset('integer row access has no returning path')
    ctx.guarded('__getitem__.int', row_section)
    ctx.trust('rectangularity of tables produced by operations other than __setitem__ (constructor forms, masks, concat, ...) is checked by the bounded stand-in only')

    # ------------------------------------------------------------------ frame: operations that return a new object never alter their operands
    def frame_section():
        from pyvc import own
        own.post_all(ctx, own.table_report(PROP), replay=frame_replay)
    ctx.guarded('frame', frame_section)

class GetItem:
    """self[key] for a column name goes through dictable.__getitem__ -> dict.__getitem__ (taken at the dict level here)"""

    def subscript(self, ex, st, e, recv, idx):
        if recv.kind == 'table' and idx.kind in ('key',):
            ex.use('callee contract:dictable.__getitem__(column name) is the stored column (dict lookup)')
            ex.raise_if(st, Not(recv.dom[idx.t]), 'KeyError')
            return column(recv, idx.t)
        return NotImplemented

    def expr(self, ex, st, e):
        return NotImplemented


def frame_replay(d):
    """replay description of a failed frame obligation: the native re-check looks at the receiver / operands before and after the call"""
    return dict(kind='frame', name=d['name'], where=d['where'], detail=d['detail'][:300])
