"""C12 - df_fillna / nona fill or drop exactly the missing cells, arrays and pandas alike.

Which cells ffill / bfill / fillna / interpolate touch is pandas' business (bounded stand-in rac/C12.py).  Under deductive contract is the
pure-Python logic of _df_fillna, every pandas / numpy operation being an uninterpreted function of its operands (pyvc/th_pandas.py):

  prelude      no method: the input is returned as it is; a numpy array is wrapped into a DataFrame (2-d) or Series, filled by df_fillna with
               method, axis, limit in exactly those positions, and `.values` of the result is returned
  one step     (loop body, from an arbitrary intermediate result `res` and method m): number -> res.fillna(value = m), 'ffill' -> res.ffill(),
               'bfill' / 'backfill' -> res.bfill(), 'pad' -> res.fillna(method = m), each with limit (and axis for a non-series input);
               'ffill_na' / 'ffill_0' -> 1-d: forward fill *of res*, then everything after res's own last valid index is NaN / 0, nothing if
               there is no valid index; 2-d: the same step column by column over res.iloc[:, i], concatenated along axis 1;
               a date -> forward fill, NaN after the date; 'fnna' -> rows from the first not-all-NaN label on, via .loc (empty via .iloc[:0]
               when there is none); 'nona' -> the not-all-NaN rows via .loc on the boolean mask; anything else -> interpolate(method = m).
               Every operation is applied to `res`, the result of the previous step - never to the original input
  whole loop   the result is df threaded through all methods in order (ghost history G: G[0] = df, G[i+1] = step(G[i], methods[i]),
               returned value G[len(methods)]); for one and two methods spelled out
  df_fillna    forwards (df, method, axis, limit) to _df_fillna
  frame        _df_fillna / df_fillna never write into the object they were given (pyvc/own.py)
  _nona / nona the value mask (isnan / isinf / ==) is reduced with .min(axis = 1) until one-dimensional (a frame row goes only when every column
               matches; loop invariant with ghost reduction count, variant = number of dimensions), an empty pandas object is returned as it is,
               edge = 1 / -1 only trims after the last / before the first kept label via df_slice with closed brackets
Path precondition of the loop obligations: limit is not a negative number (the backward-interpolation branch rebinds `params` for the
following steps; executed for one step only).  Assumed: as_list, recursion of _df_fillna / df_fillna / df_slice by name; numpy fact
"x.min(axis = 1) has one dimension less than x" (termination of the mask reduction).
Bounded only: what the pandas operations compute, @loop lifting over containers.
"""
import ast
import z3
from z3 import And, Or, Not, If, Implies, Int, IntVal, BoolVal, Const, Select, Store, Lambda, ForAll, Array, IntSort

from pyvc.front import select, SelectorError, OutOfSubset
from pyvc.symex import Exec, State, LoopSpec
from pyvc.theories import TypePreds, ConcreteStr
from pyvc.sv import SV, I, B, S, T, NONE, fresh_name
from pyvc import th_pandas as tp
from pyvc.th_pandas import (Pandas, PV, PArr, NONEPV, P, F, M, A, R, UN, CMP, GETITEM, SETITEM, SLICE, TUP, TRUTH, LEN, TOINT, MKLIST, INTV, FLOAT, STR, GLOBAL,
                            base_facts, run_def, as_list_of, at as lat)

PROP = 'C12'
REPLAY_MODULE = 'rac.C12_ded'
NAN = GLOBAL('np.nan')


def build(ctx):
    m = ctx.mod('_pandas')
    # replays are fixed native batteries per obligation family (the counterexamples are interpretations of uninterpreted pandas operations)
    ctx.default_meta = dict(replay_without_model=True)
    bf = base_facts
    DF, METHOD, AXIS, LIMIT = [Const(n, PV) for n in ('DF', 'METHOD', 'AXIS', 'LIMIT')]
    RES, MM = Const('RES', PV), Const('M', PV)
    w0 = dict(k=IntVal(0))
    series = TRUTH(F('is_series', DF))
    neg_limit = And(TRUTH(F('is_num', LIMIT)), TRUTH(CMP('Lt', LIMIT, 0)))

    def theories(**kw):
        th = Pandas(m, **kw)
        return th, [th, ConcreteStr(m), TypePreds()]

    def withp(name, res, **kw):
        """res.<name>(**kw, **params): limit for a series input, axis and limit otherwise"""
        return If(series, M(name, res, limit=LIMIT, **kw), M(name, res, axis=AXIS, limit=LIMIT, **kw))

    def spec_step(res, mm, branches=False):
        """the statement's reading of one method applied to the intermediate result `res` (limit not a negative number)"""
        isnum, isdate = TRUTH(F('is_num', mm)), TRUTH(F('is_date', mm))
        eq = lambda *lits: Or(*[mm == STR(x) for x in lits])
        ff = withp('ffill', res)
        # ffill_na / ffill_0
        invalid = If(mm == STR('ffill_na'), NAN, FLOAT(0.0))
        lv = M('last_valid_index', res)
        one_d = If(lv != NONEPV, SETITEM(ff, CMP('Gt', A('index', ff), lv), invalid), res)
        ncol = GETITEM(A('shape', res), 1)
        j = Int(fresh_name('j!col'))
        cols = MKLIST(If(TOINT(ncol) > 0, TOINT(ncol), 0), Lambda([j], R('_df_fillna', GETITEM(A('iloc', res), TUP(SLICE(None, None, None), INTV(j))), mm, 0, LIMIT)))
        two_d = If(TRUTH(CMP('Gt', ncol, 0)), F('pd.concat', cols, axis=1), res)
        ffna = If(LEN(A('shape', res)) == 1, one_d, two_d)
        # fnna / nona
        nonan0 = UN('Invert', F('np.isnan', res))
        nonan = If(LEN(A('shape', res)) == 2, M('max', nonan0, axis=1), nonan0)
        nn = GETITEM(nonan, A('values', nonan))
        fnna = If(LEN(nn) != 0, GETITEM(A('loc', res), SLICE(GETITEM(A('index', nn), 0), None, None)), GETITEM(A('iloc', res), SLICE(None, 0, None)))
        nona = GETITEM(A('loc', res), A('values', nonan))
        chain = [('number_fills_the_previous_result_with_that_constant', isnum, withp('fillna', res, value=mm)),
                 ('ffill_forward_fills_the_previous_result', eq('ffill'), ff),
                 ('bfill_backward_fills_the_previous_result', eq('bfill', 'backfill'), withp('bfill', res)),
                 ('pad_fills_the_previous_result_by_method', eq('pad'), withp('fillna', res, method=mm)),
                 ('ffill_na_forward_fills_up_to_the_last_valid_index_of_the_previous_result_column_by_column', eq('ffill_na', 'ffill_0'), ffna),
                 ('date_forward_fills_and_blanks_after_the_date', isdate, SETITEM(ff, CMP('Gt', A('index', ff), mm), NAN)),
                 ('fnna_keeps_rows_from_the_first_not_all_nan_label_by_loc', And(eq('fnna', 'nona'), mm == STR('fnna')), fnna),
                 ('nona_keeps_the_not_all_nan_rows_by_loc', And(eq('fnna', 'nona'), mm == STR('nona')), nona),
                 ('anything_else_interpolates_the_previous_result', BoolVal(True), withp('interpolate', res, method=mm))]
        if branches:
            out, earlier = [], []
            for name, c, t in chain:
                out.append((name, And(c, *[Not(x) for x in earlier]), t))
                earlier.append(c if name != 'fnna_keeps_rows_from_the_first_not_all_nan_label_by_loc' else eq('fnna', 'nona'))
            return out
        term = chain[-1][2]
        for name, c, t in reversed(chain[:-1]):
            term = If(c, t, term)
        return term

    fdef = None

    def locate():
        f = m.func('_df_fillna')
        loop = select(f, 'For#0')
        if len(loop.body) != 1 or not isinstance(loop.body[0], ast.If) or not isinstance(loop.target, ast.Name):
            raise SelectorError('_df_fillna: the method loop is not `for m in methods: if ... elif ...`')
        return f, loop

    # =========================================================================================== prelude and array path
    def prelude_section():
        f, loop = locate()
        rp = replay_of('prelude')
        th, ths = theories()
        # the loop is cut off: only paths that return before it are of interest here
        spec = LoopSpec('cut', lambda st, entry: [], keep=('params',))
        ex = Exec(m, ths, loops={id(loop): spec}, name='_df_fillna.prelude')
        outs = run_def(ex, State(), f, [P(DF), P(METHOD), P(AXIS), P(LIMIT)])
        ex.obligations = [ob for ob in ex.obligations if '.cut.' not in ob.name]
        ctx.absorb(ex); ctx.record_function(m, '_df_fillna', f, ex.stmts_executed, excluded=['@loop(list, tuple, dict) lifting over containers: bounded (C19)'])
        methods = as_list_of(METHOD)
        isarr = TRUTH(F('is_arr', DF))
        wrapped = If(LEN(A('shape', DF)) == 2, F('pd.DataFrame', DF), F('pd.Series', DF))
        want_arr = A('values', R('df_fillna', wrapped, METHOD, AXIS, LIMIT))
        n = 0
        for o in outs:
            if o.kind != 'return' or o.st.ghost.get('cut.k') is not None:
                continue                                    # paths through the (cut) loop carry its ghost counter
            n += 1
            hy = ex.facts + bf() + o.st.pc
            r = th.to_pv(ex, o.st, o.val) if th.convertible(o.val) else None
            if r is None:
                ctx.post('_df_fillna.prelude.returns_a_value', hy, BoolVal(False), replay=rp, witness=w0)
                continue
            ctx.post('_df_fillna.no_method_returns_the_input_unchanged', hy + [methods.n == 0], r == DF, replay=rp, witness=w0)
            ctx.post('_df_fillna.array_is_wrapped_filled_with_method_axis_limit_in_their_positions_and_unwrapped', hy + [methods.n != 0], And(isarr, r == want_arr), replay=rp, witness=w0)
        if n == 0:
            raise OutOfSubset('_df_fillna has no path returning before the method loop')
        ctx.cover('_df_fillna.array_path_reachable', bf() + [isarr, TRUTH(F('is_num', METHOD))])
        # df_fillna
        fd = m.func('df_fillna')
        th, ths = theories()
        ex = Exec(m, ths, name='df_fillna')
        outs = run_def(ex, State(), fd, [P(DF), P(METHOD), P(AXIS), P(LIMIT)])
        ctx.absorb(ex); ctx.record_function(m, 'df_fillna', fd, ex.stmts_executed)
        for o in outs:
            hy = ex.facts + bf() + o.st.pc
            ctx.post('df_fillna.forwards_df_method_axis_limit_to__df_fillna', hy,
                     BoolVal(False) if o.kind != 'return' or not th.convertible(o.val) else th.to_pv(ex, o.st, o.val) == R('_df_fillna', DF, METHOD, AXIS, LIMIT), replay=rp, witness=w0)
    ctx.guarded('_df_fillna.prelude', prelude_section)

    # =========================================================================================== one step of the method loop
    def step_env(th, ex, st):
        """the locals at the head of the loop body, as the prelude leaves them"""
        env = dict(df=P(DF), method=P(METHOD), axis=P(AXIS), limit=P(LIMIT), methods=as_list_of(METHOD), res=P(RES))
        env['params'] = SV('dictalt', series, a=SV('dictlit', None, d=dict(limit=P(LIMIT))), b=SV('dictlit', None, d=dict(axis=P(AXIS), limit=P(LIMIT))))
        return env

    def step_section():
        f, loop = locate()
        rp = replay_of('step')
        # params as the real prelude builds it (checked, not assumed): execute the statements before the loop
        th, ths = theories()
        ex = Exec(m, ths, loops={id(loop): LoopSpec('cut', lambda st, entry: [], keep=('params',))}, name='_df_fillna.params')
        st = State(env=dict(df=P(DF), method=P(METHOD), axis=P(AXIS), limit=P(LIMIT)))
        pre_stmts = [s for s in f.body[:f.body.index(loop)] if not (isinstance(s, ast.Expr) and isinstance(s.value, ast.Constant))]
        outs = ex.run_block(st, pre_stmts)
        nexts = [o for o in outs if o.kind == 'next']
        if not nexts:
            raise OutOfSubset('_df_fillna: no path reaches the method loop')
        for o in nexts:
            hy = ex.facts + bf() + o.st.pc
            p_, r_ = o.st.env.get('params'), o.st.env.get('res')
            ok = p_ is not None and p_.kind == 'dictalt' and p_.a.kind == 'dictlit' and p_.b.kind == 'dictlit' and sorted(p_.a.f['d']) == ['limit'] and sorted(p_.b.f['d']) == ['axis', 'limit']
            ctx.post('_df_fillna.loop_starts_from_the_input_with_limit_or_axis_and_limit_as_parameters', hy,
                     And(p_.t == series, tp.sv_pv(p_.a.f['d']['limit']) == LIMIT, tp.sv_pv(p_.b.f['d']['limit']) == LIMIT, tp.sv_pv(p_.b.f['d']['axis']) == AXIS,
                         tp.sv_pv(r_) == DF) if ok and r_ is not None and r_.kind == 'pv' else BoolVal(False), replay=rp, witness=w0)
        # the body, from an arbitrary intermediate result
        th, ths = theories()
        ex = Exec(m, ths, name='_df_fillna.step')
        st = State(env=step_env(th, ex, None))
        st.env[loop.target.id] = P(MM)
        st.pc += [RES != DF]
        outs = ex.run_block(st, loop.body)
        ctx.absorb(ex); ctx.record_function(m, '_df_fillna', f, ex.stmts_executed)
        branches = spec_step(RES, MM, branches=True)
        n = 0
        for o in outs:
            hy = ex.facts + bf() + o.st.pc
            if o.kind != 'next':
                ctx.post('_df_fillna.step.neither_raises_nor_leaves_the_loop', hy, BoolVal(False), kind='safety', replay=rp, witness=w0)
                continue
            n += 1
            r = o.st.env.get('res')
            if r is None or r.kind != 'pv':
                ctx.post('_df_fillna.step.result_is_a_pandas_object', hy, BoolVal(False), replay=rp, witness=w0)
                continue
            for name, cond, term in branches:
                extra = [Not(neg_limit)] if name.startswith('anything_else') else []
                ctx.post('_df_fillna.step.' + name, hy + [cond] + extra, r.t == term, replay=rp, witness=w0)
            ctx.post('_df_fillna.step.negative_limit_interpolates_backward_with_its_absolute_value', hy + [branches[-1][1], neg_limit],
                     r.t == If(series, M('interpolate', RES, limit=F('abs', LIMIT), limit_direction='backward', method=MM),
                               M('interpolate', RES, axis=AXIS, limit=F('abs', LIMIT), limit_direction='backward', method=MM)), replay=rp, witness=w0)
        if n == 0:
            raise OutOfSubset('_df_fillna: the loop body has no normal path')
        ctx.cover('_df_fillna.step.ffill_na_reachable', bf() + [MM == STR('ffill_na'), Not(TRUTH(F('is_num', MM)))])
    ctx.guarded('_df_fillna.step', step_section)

    # =========================================================================================== the whole loop
    def loop_section():
        f, loop = locate()
        rp = replay_of('loop')
        methods = as_list_of(METHOD)
        tname = loop.target.id
        nm = '_df_fillna.loop'

        def inv(st, entry):
            G, k = st.ghost['G'], st.ghost[nm + '.k']
            i = Int('i!inv')
            r = st.env['res']
            return [('starts_from_the_input', Select(G, 0) == DF),
                    ('current_result_is_the_last_of_the_history', r.t == Select(G, k) if r.kind == 'pv' else BoolVal(False)),
                    ('each_step_is_its_method_applied_to_the_previous_result', ForAll([i], Implies(And(0 <= i, i < k), Select(G, i + 1) == spec_step(Select(G, i), lat(methods, i)))))]

        def ghost_havoc(ex, st):
            st.ghost['G'] = Array(fresh_name('G'), IntSort(), PV)

        def after_body(ex, st, s):
            k = st.ghost[nm + '.k']
            r = st.env['res']
            st.ghost['G'] = Store(st.ghost['G'], k + 1, r.t)

        spec = LoopSpec(nm, inv, ghost_havoc=ghost_havoc, keep=('params',))
        th, ths = theories()
        body = loop.body[0]
        ex = Exec(m, ths, loops={id(loop): spec}, hooks=[(lambda s: s is body, after_body)], name='')
        st = State()
        st.pc += [Not(neg_limit), Not(TRUTH(F('is_arr', DF)))]
        st.ghost['G'] = Store(Array('G0', IntSort(), PV), 0, DF)
        outs = run_def(ex, st, f, [P(DF), P(METHOD), P(AXIS), P(LIMIT)])
        rebinds = [s for s in ast.walk(loop) if isinstance(s, ast.Assign) and any(isinstance(t, ast.Name) and t.id == 'params' for t in s.targets)]
        ctx.post('_df_fillna.loop.params_are_not_rebound_when_limit_is_not_negative', [], BoolVal(all(id(s) not in ex.stmts_executed for s in rebinds)), kind='safety')
        for ob in ex.obligations:
            ob.meta.setdefault('replay', rp)
        ctx.absorb(ex); ctx.record_function(m, '_df_fillna', f, ex.stmts_executed)
        n = 0
        i = Int('i!post')
        for o in outs:
            hy = ex.facts + bf() + o.st.pc
            if o.kind != 'return':
                ctx.post('_df_fillna.loop.never_raises', hy, BoolVal(False), kind='safety', replay=rp, witness=w0)
                continue
            if o.st.ghost.get(nm + '.k') is None:
                continue                                    # returned before the loop (prelude section)
            n += 1
            G = o.st.ghost['G']
            r = th.to_pv(ex, o.st, o.val) if th.convertible(o.val) else None
            if r is None:
                ctx.post('_df_fillna.loop.returns_a_pandas_object', hy, BoolVal(False), replay=rp, witness=w0)
                continue
            N = methods.n
            w = dict(n=N)
            ctx.post('_df_fillna.loop.result_is_the_input_threaded_through_all_methods_in_order', hy,
                     And(o.st.ghost[nm + '.k'] == N, r == Select(G, N), Select(G, 0) == DF,
                         ForAll([i], Implies(And(0 <= i, i < N), Select(G, i + 1) == spec_step(Select(G, i), lat(methods, i))))), replay=rp, witness=w)
            ctx.post('_df_fillna.loop.one_method_is_one_step_from_the_input', hy + [N == 1], r == spec_step(DF, lat(methods, 0)), replay=rp, witness=w)
            ctx.post('_df_fillna.loop.second_method_applies_to_the_result_of_the_first', hy + [N == 2],
                     r == spec_step(spec_step(DF, lat(methods, 0)), lat(methods, 1)), replay=rp, witness=w)
        if n == 0:
            raise OutOfSubset('_df_fillna: no path returns after the method loop')
        ctx.cover('_df_fillna.loop.three_methods_reachable', bf() + [methods.n == 3, Not(neg_limit)])
    ctx.guarded('_df_fillna.loop', loop_section)

    # =========================================================================================== frame
    def frame_section():
        from pyvc import own
        own.post_all(ctx, own.frame_report([('_pandas', '_df_fillna', {}), ('_pandas', 'df_fillna', {})], protocol=False), replay=frame_replay)
    ctx.guarded('frame', frame_section)

    ctx.trust('pandas semantics (which cells ffill / bfill / fillna / interpolate touch within limit, last_valid_index, .loc / .iloc row selection) are '
              'uninterpreted here and decided by the bounded stand-in rac/C12.py only')

    # =========================================================================================== _nona / nona
    VALUE, EDGE = Const('VALUE', PV), Const('EDGE', PV)
    RED = z3.Function('min_along_axis_1_repeated', PV, IntSort(), PV)        # RED(m, k): m reduced k times with .min(axis = 1)

    def nona_section():
        f = m.func('_nona')
        loops = [s for s in f.body if isinstance(s, ast.While)]
        if len(loops) != 1 or len(loops[0].body) != 1:
            raise SelectorError('_nona: expected one `while len(mask.shape) > 1: mask = mask.min(axis = 1)` loop')
        loop, step = loops[0], loops[0].body[0]
        rp = replay_of('nona')
        isnan, isinf = TRUTH(F('np.isnan', VALUE)), TRUTH(F('np.isinf', VALUE))
        mask0 = If(isnan, F('np.isnan', DF), If(isinf, F('np.isinf', DF), CMP('Eq', DF, VALUE)))
        dims = lambda x: LEN(A('shape', x))
        red_def = lambda k: [RED(mask0, 0) == mask0, RED(mask0, k + 1) == M('min', RED(mask0, k), axis=1)]
        # numpy / pandas fact used for termination only: reducing along axis 1 drops one dimension
        drop_dim = lambda x: Implies(dims(x) > 1, dims(M('min', x, axis=1)) == dims(x) - 1)

        def inv(st, entry):
            k = st.ghost['K']
            mk = st.env['mask']
            return [('mask_is_the_value_mask_reduced_k_times', And(k >= 0, mk.t == RED(mask0, k)) if mk.kind == 'pv' else BoolVal(False)),
                    ('one_reduction_per_surplus_dimension', If(dims(mask0) <= 1, k == 0, And(dims(RED(mask0, k)) == dims(mask0) - k, k <= dims(mask0) - 1)))]

        def ghost_havoc(ex, st):
            st.ghost['K'] = Int(fresh_name('K'))

        def after(ex, st, s):
            k = st.ghost['K']
            for c in red_def(k) + [drop_dim(RED(mask0, k))]:
                st.pc.append(c)
            st.ghost['K'] = k + 1

        spec = LoopSpec('_nona.reduce', inv, variant=lambda st: dims(st.env['mask'].t), ghost_havoc=ghost_havoc)
        th, ths = theories()
        ex = Exec(m, ths, loops={id(loop): spec}, hooks=[(lambda x: x is step, after)], name='')
        st = State()
        st.ghost['K'] = IntVal(0)
        st.pc += [RED(mask0, 0) == mask0, dims(mask0) >= 0]
        outs = run_def(ex, st, f, [P(DF), P(VALUE), P(EDGE)])
        for ob in ex.obligations:
            ob.meta.setdefault('replay', rp)
        ctx.absorb(ex); ctx.record_function(m, '_nona', f, ex.stmts_executed, excluded=['@loop(dict, list, tuple) lifting over containers: bounded (C19)'])
        n = 0
        for o in outs:
            hy = ex.facts + bf() + o.st.pc
            if o.kind != 'return':
                ctx.post('_nona.never_raises', hy, BoolVal(False), kind='safety', replay=rp, witness=w0)
                continue
            n += 1
            k = o.st.ghost['K']
            final = RED(mask0, k)
            kept = GETITEM(DF, UN('Invert', final))
            empty = And(TRUTH(F('is_pd', DF)), LEN(DF) == 0)
            plain = Or(EDGE == NONEPV, LEN(kept) == 0, Not(TRUTH(F('is_pd', DF))))
            want = If(empty, DF, If(plain, kept,
                                    If(TRUTH(CMP('Eq', EDGE, 1)), R('df_slice', DF, None, GETITEM(A('index', kept), -1), '[]', 1),
                                       If(TRUTH(CMP('Eq', EDGE, -1)), R('df_slice', DF, GETITEM(A('index', kept), 0), None, '[]', 1), NONEPV))))
            r = th.to_pv(ex, o.st, o.val) if th.convertible(o.val) else None
            w = dict(k=k)
            ctx.post('_nona.mask_is_reduced_until_it_has_one_dimension', hy, And(k >= 0, dims(final) <= 1), replay=rp, witness=w)
            ctx.post('_nona.keeps_the_rows_outside_the_reduced_value_mask_or_only_trims_the_edge', hy, r == want if r is not None else BoolVal(False), replay=rp, witness=w)
            ctx.post('_nona.one_dimensional_input_is_masked_as_it_is', hy + [dims(mask0) <= 1, Not(empty), plain], r == GETITEM(DF, UN('Invert', mask0)) if r is not None else BoolVal(False),
                     replay=rp, witness=w)
            ctx.post('_nona.frame_rows_go_only_when_every_column_matches', hy + red_def(IntVal(0)) + [dims(mask0) == 2, drop_dim(mask0), Not(empty), plain],
                     r == GETITEM(DF, UN('Invert', M('min', mask0, axis=1))) if r is not None else BoolVal(False), replay=rp, witness=w)
        if n == 0:
            raise OutOfSubset('_nona has no returning path')
        ctx.cover('_nona.frame_reachable', bf() + [dims(mask0) == 2, drop_dim(mask0)])
        fd = m.func('nona')
        th, ths = theories()
        ex = Exec(m, ths, name='nona')
        outs = run_def(ex, State(), fd, [P(DF), P(VALUE), P(EDGE)])
        ctx.absorb(ex); ctx.record_function(m, 'nona', fd, ex.stmts_executed)
        for o in outs:
            hy = ex.facts + bf() + o.st.pc
            ctx.post('nona.forwards_a_value_edge_to__nona', hy,
                     BoolVal(False) if o.kind != 'return' or not th.convertible(o.val) else th.to_pv(ex, o.st, o.val) == R('_nona', DF, VALUE, EDGE), replay=rp, witness=w0)
    ctx.guarded('_nona', nona_section)
    ctx.trust('_nona: numpy fact used for the termination of the mask reduction - x.min(axis = 1) has one dimension less than x - is assumed')


def replay_of(kind, **kw):
    def mk(model):
        return dict(kind=kind, **kw)
    return mk


def frame_replay(d):
    return dict(kind='frame', name=d['name'], where=d['where'], detail=d['detail'][:300])
