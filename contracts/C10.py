"""C10 - drange enumerates exactly t0, t0+bump, ... up to t1 for every kind of bump.

Function under contract: pyg_base._drange:drange (real source, re-read on every run), is_period inlined.  One symbolic execution
of the whole function per kind of bump:
  same     t0 == t1 for an int, a timedelta, a period string and None                  -> [t0]
  int      integer bump n (and bump None): rrule DAILY axiom + [::-1] + [::|n|]        -> t0 + j*n days, direction check
  td       timedelta bump: the two `while` loops (While#0, While#1) with invariant res[k] == t0 + k*bump
  b        'nb': the filtered comprehension over rrule as a loop with the weekday-count invariant, [::-1], [::|n|]
  unit     'nd' 'nw' 'nh' 'nn' 'ns' with n > 0: rrule(freq, interval=n) by the rrule axiom of th_rrule (third-party, axiom);
           'nm' 'nq' 'ny': only the direction check - rrule MONTHLY/YEARLY is NOT axiomatised, the returned list stays bounded
  loop     compound period strings and negative single periods: While#2, While#3 with dt_bump taken by contract (BUMP), under the hypothesis
           that BUMP moves every t forward (all parts positive) resp. backward (all parts negative) - used at instances only
  negative '-nd' ... '-ny', one concrete unit letter per run: must reach the dt_bump loop and never rrule, whose callee precondition
           interval >= 1 (obligation call.rrule.pre.interval_ge_1 at every call site) they would violate (defect D6, repaired by ef9056c)
Known finding (key C10:rrule-branches:subsecond-start-truncated): every branch that goes through dateutil.rrule loses the microseconds of t0
(rrule.__init__ does dtstart.replace(microsecond=0)); the clauses of those branches are proved for whole-second starts and the complement is an
expected-to-fail obligation.
Lemmas: product schemas (against the real product), weekday-count lemmas, agreement of two lists that both satisfy the step-form
postcondition (induction), each dt_bump token with n > 0 moves t forward / n < 0 backward (real dt_bump region through C09's
machinery), chains of increasing steps increase (induction).
Taken by contract: date_range(t0, t1) returns two datetimes unchanged; dt_bump(t, s) is a function of t for the tenor of the run.
"""
import ast
import z3
from z3 import And, Or, Not, If, Implies, Int, Ints, IntVal, BoolVal, ForAll, Function, IntSort

from pyvc.front import select, find, find_all, SelectorError, OutOfSubset
from pyvc.symex import Exec, State, LoopSpec
from pyvc.theories import Globals, TypePreds, Dates, ConcreteStr, Tokens
from pyvc.sv import SV, I, S, T, NONE, DT, TD, DAYUS, wd, W, lex_le, lex_lt, pair_eq, dt_add, fresh_int
from pyvc.th_seq import Lists, L_len, L_at
from pyvc.th_arith import Products, MUL, mul_zero, mul_one, mul_rec, mul_mono, mul_strict, mul_sign, validate as validate_products
from pyvc.th_rrule import RRule, whole_second, SEC, UNIT_US
from pyvc.th_tenor import TenorOps, BumpByContract, BUMP, BUMPo, BUMPu
from contracts import C09

PROP = 'C10'
REPLAY_MODULE = 'rac.C10_ded'
O_LO, O_HI = C09.O_LO, C09.O_HI
K_SUBSEC = 'C10:rrule-branches:subsecond-start-truncated'

o0, u0, o1, u1, n = Ints('O0 U0 O1 U1 N')
bd, bu = Ints('BD BU')
j = Int('J')
t0, t1 = DT(o0, u0), DT(o1, u1)
DOM = [O_LO <= o0, o0 < O_HI, O_LO <= o1, o1 < O_HI, 0 <= u0, u0 < DAYUS, 0 <= u1, u1 < DAYUS]
KB = Function('KB', IntSort(), IntSort())          # KB(k) = k * bump (in microseconds): uninterpreted, constrained by its recurrence


def tot(x):
    return x.t * DAYUS + x.us


def norm(x):
    return And(0 <= x.us, x.us < DAYUS)


def between(a, x, b):
    """x lies in [a, b] or [b, a]"""
    return Or(And(lex_le(a, x), lex_le(x, b)), And(lex_le(b, x), lex_le(x, a)))


class Callees:
    def call(self, ex, st, e, fname, args, kwargs):
        if fname == 'date_range' and len(args) == 2 and not kwargs and all(a.kind == 'dt' for a in args):
            ex.use('assumed contract:date_range(t0, t1) returns two datetimes unchanged (dt(datetime) is the identity: C04 dt.datetime.returned_unchanged)')
            return T(args)
        return NotImplemented


# ------------------------------------------------------------------------------------------------------------ weekday counting
def W_STEP(a):
    return W(a + 1) - W(a) == If(wd(a + 1) < 5, 1, 0)


def W_MONO(a, b):
    return Implies(a <= b, W(a) <= W(b))


def W_INJ(x, y):
    return Implies(And(wd(x) < 5, wd(y) < 5, W(x) == W(y)), x == y)


def machinery(ctx):
    m, md = ctx.mod('_drange'), ctx.mod('_dates')
    fn = m.func('drange')
    whiles = find_all(fn, lambda x: isinstance(x, ast.While))
    if len(whiles) != 4:
        raise SelectorError('drange: expected 4 while loops (timedelta forward/back, dt_bump forward/back), found %d' % len(whiles))
    comps = find_all(fn, lambda x: isinstance(x, ast.ListComp) and len(x.generators) == 1 and x.generators[0].ifs)
    if len(comps) != 1:
        raise SelectorError('drange: expected one filtered comprehension, found %d' % len(comps))
    toks = Tokens(md)
    inline = {'drange': (m, fn), 'is_period': (md, md.func('is_period'))}
    return m, md, fn, whiles, comps[0], toks, inline


def theories(mach, unit=None):
    m, md, fn, whiles, comp, toks, inline = mach
    return [Callees(), Lists('dt'), RRule(m), Products(), TenorOps(toks, unit), BumpByContract(), Globals(m, ['_LY']), TypePreds(),
            Dates(), ConcreteStr(md, []), toks]


EXECUTED = set()
EXCLUDED = ['endpoint resolution date_range(t0, t1) for non-datetime endpoints (bumps, ints, strings, None): taken by contract for datetimes',
            "rrule(MONTHLY / YEARLY, interval=k) for positive 'nm' 'nq' 'ny': not axiomatised, the returned list is checked by the bounded stand-in only"]


def run(ctx, mach, bump, pre, name, loops=None, unit=None, witness=None, replay=None):
    m, md, fn, whiles, comp, toks, inline = mach
    ex = Exec(m, theories(mach, unit), loops=loops or {}, inline=inline, name=name)
    st = State(); st.pc += list(pre)
    outs = ex.run_function(st, 'drange', [t0, t1, bump], {})
    for ob in ex.obligations:               # invariants, variants, callee preconditions generated inside the executor: same witness and replay
        ob.witness = dict(witness or {})
        ob.meta['replay'] = replay
    ctx.absorb(ex)
    EXECUTED.update(ex.stmts_executed)       # statements reached by any of the runs so far
    ctx.record_function(m, 'drange', fn, EXECUTED, excluded=EXCLUDED)
    ctx.record_function(md, 'is_period', md.func('is_period'), EXECUTED, how='inlined into drange')
    return ex, outs


def call_of(spec):
    """replay description: the model's endpoints and a concrete bump"""
    def mk(model):
        g = lambda k, d=0: d if model.get(k) is None else int(model[k])
        bump = spec(g) if callable(spec) else spec
        return dict(kind='drange', o0=g('o0', 730120), u0=g('u0'), o1=g('o1', 730120), u1=g('u1'), bump=bump)
    return mk


def build(ctx):
    EXECUTED.clear()
    mach = machinery(ctx)
    m, md, fn, whiles, comp, toks, inline = mach
    wit = dict(o0=o0, u0=u0, o1=o1, u1=u1, n=n)
    ctx.default_meta = dict(search_hints=[o0 >= 730120, o0 <= 730200, o1 >= o0 - 40, o1 <= o0 + 40, -6 <= n, n <= 6,
                                          u0 % (3600 * SEC) == 0, u1 % (3600 * SEC) == 0, j <= 12])
    away_n = lambda nn: Or(nn == 0, And(nn > 0, lex_lt(t1, t0)), And(nn < 0, lex_lt(t0, t1)))

    def direction(prefix, ex, outs, away, w, replay, allowed=('ValueError',)):
        """each raise is reached exactly when the bump points away from t1; returns the returning outcomes"""
        rets = []
        for out in outs:
            hy = ex.facts + out.st.pc
            if out.kind == 'raise' and out.val in allowed:
                ctx.post(prefix + '.raises_only_when_bump_points_away', hy, away, kind='raises', witness=w, replay=replay)
            elif out.kind == 'raise':
                ctx.post('%s.never_raises.%s' % (prefix, out.val), hy, BoolVal(False), kind='safety', witness=w, replay=replay)
            elif out.kind == 'return':
                ctx.post(prefix + '.returns_only_when_bump_points_to_t1', hy, Not(away), kind='raises', witness=w, replay=replay)
                rets.append(out)
            else:
                raise OutOfSubset('%s escaping drange' % out.kind)
        if not rets:
            raise OutOfSubset('%s: no returning path' % prefix)
        return rets

    # ================================================================== 0. lemmas that do not depend on the code
    validate_products(ctx)
    a_, b_ = Ints('LA LB')
    ctx.post('lemma.weekday_count.step', [], W_STEP(a_), kind='lemma')
    ctx.post('lemma.weekday_count.monotone', [], W_MONO(a_, b_), kind='lemma')
    ctx.post('lemma.weekday_count.injective_on_weekdays', [], W_INJ(a_, b_), kind='lemma')

    # ================================================================== 1. t0 == t1 gives [t0]
    def same_section():
        bumps = [('int', I(n)), ('timedelta', TD(bd, bu)), ('period', toks.tenor(Int('NTOK'), 0, 0)), ('none', NONE)]
        for label, bump in bumps:
            rep = call_of(dict(int=1) if label == 'int' else (None if label == 'none' else (dict(td=[0, 3600, 0]) if label == 'timedelta' else dict(str='1m1d'))))
            ex, outs = run(ctx, mach, bump, DOM + [pair_eq(t0, t1), 0 <= bu, bu < DAYUS, Int('NTOK') >= 1], 'same.' + label, witness=wit, replay=rep)
            nret = 0
            for out in outs:
                hy = ex.facts + out.st.pc
                if out.kind != 'return':
                    ctx.post('same.%s.never_raises' % label, hy, BoolVal(False), kind='safety', witness=wit, replay=rep)
                    continue
                nret += 1
                R = out.val
                ctx.post('same.%s.is_the_singleton_t0' % label, hy, And(L_len(R) == 1, pair_eq(L_at(out.st, R, 0), t0)), witness=wit, replay=rep)
            if nret == 0:
                raise OutOfSubset('t0 == t1: no returning path')
        ctx.cover('same.pre_satisfiable', DOM + [pair_eq(t0, t1)])
    ctx.guarded('same', same_section)

    # ================================================================== 2. integer bump
    absn = If(n >= 0, n, -n)
    PROD = If(n >= 0, MUL(j, absn), -MUL(j, absn))       # j * n through the product of th_arith

    def int_posts(prefix, ex, out, pre_extra, rep, known=False):
        R, st = out.val, out.st
        L = L_len(R)
        ej, ej1, e0, el = L_at(st, R, j), L_at(st, R, j + 1), L_at(st, R, 0), L_at(st, R, L - 1)
        inst = [mul_zero(absn), mul_one(j), mul_rec(j, absn), mul_rec(L - 1, absn), mul_mono(0, j, absn), mul_mono(j, L - 1, absn), mul_mono(0, L - 1, absn)]
        hy = ex.facts + st.pc + inst + pre_extra
        post = ctx.post if not known else (lambda name, h, g, **kw: ctx.known(name + '.subsecond_start', h, g, key=K_SUBSEC, witness=kw.get('witness'), replay=kw.get('replay')))
        w = dict(wit, j=j)
        inr, inr1 = And(0 <= j, j < L), And(0 <= j, j + 1 < L)
        post(prefix + '.nonempty_and_starts_at_t0', hy, And(L >= 1, pair_eq(e0, t0)), witness=w, replay=rep)
        if known:
            return
        post(prefix + '.jth_is_t0_plus_j_times_n_days', hy + [inr], And(ej.t == o0 + PROD, ej.us == u0), witness=w, replay=rep)
        post(prefix + '.next_is_previous_plus_n_days', hy + [inr1], And(ej1.t == ej.t + n, ej1.us == ej.us), witness=w, replay=rep)
        post(prefix + '.within_the_endpoints', hy + [inr], between(t0, ej, t1), witness=w, replay=rep)
        post(prefix + '.maximal', hy, Not(between(t0, DT(el.t + n, el.us), t1)), witness=w, replay=rep)
        post(prefix + '.strictly_monotone', hy + [inr1], If(n > 0, lex_lt(ej, ej1), lex_lt(ej1, ej)), witness=w, replay=rep)

    def int_section():
        whole_days = [u0 == u1]
        for label, bump, extra in (('int', I(n), []), ('none', NONE, [n == If(lex_lt(t0, t1), 1, -1)])):
            rep = call_of(lambda g: dict(int=g('n', 1))) if label == 'int' else call_of(None)
            pre = DOM + whole_days + [Not(pair_eq(t0, t1))] + extra
            ex, outs = run(ctx, mach, bump, pre, label, witness=wit, replay=rep)
            rets = direction(label, ex, outs, away_n(n), wit, rep)
            for out in rets:
                int_posts(label, ex, out, [u0 % SEC == 0], rep)
                if label == 'int':
                    int_posts(label, ex, out, [u0 % SEC != 0], rep, known=True)
            ctx.cover('%s.pre_satisfiable' % label, pre + [o1 - o0 > 3 * n, n > 1] if label == 'int' else pre)
        ctx.cover('int.backward_reachable', DOM + whole_days + [n < -1, o1 < o0 + 2 * n])
    ctx.guarded('int', int_section)

    # ================================================================== 3. timedelta bump: the two while loops
    B = bd * DAYUS + bu
    T0 = tot(t0)
    KBREC = lambda k: KB(k + 1) == KB(k) + B

    def td_inv(sign):
        def inv(st, entry):
            res, t = st.env['res'], st.env['t']
            L = L_len(res)
            k = Int('k!inv')
            ek = L_at(st, res, k)
            inside = lex_le(ek, t1) if sign > 0 else lex_le(t1, ek)
            ahead = (lambda x: x >= T0) if sign > 0 else (lambda x: x <= T0)
            return [('length_nonnegative', L >= 0),
                    ('t_is_normalised', norm(t)),
                    ('t_is_t0_plus_len_bumps', tot(t) == T0 + KB(L)),
                    ('t_not_behind_t0', ahead(tot(t))),
                    ('elements_are_t0_plus_k_bumps', ForAll([k], Implies(And(0 <= k, k < L), And(tot(ek) == T0 + KB(k), norm(ek), inside, ahead(tot(ek))))))]
        return inv

    def td_havoc(ex, st):
        ex.fact(KBREC(L_len(st.env['res'])))

    td_loops = {id(whiles[0]): LoopSpec('td.While0', td_inv(1), variant=lambda st: tot(t1) - tot(st.env['t']), ghost_havoc=td_havoc),
                id(whiles[1]): LoopSpec('td.While1', td_inv(-1), variant=lambda st: tot(st.env['t']) - tot(t1), ghost_havoc=td_havoc)}

    def td_section():
        wtd = dict(wit, bd=bd, bu=bu, j=j)
        rep = call_of(lambda g: dict(td=[g('bd'), g('bu') // SEC, g('bu') % SEC]))
        pre = DOM + [Not(pair_eq(t0, t1)), 0 <= bu, bu < DAYUS, -10 ** 6 <= bd, bd <= 10 ** 6, KB(0) == 0]
        ex, outs = run(ctx, mach, TD(bd, bu), pre, 'td', loops=td_loops, witness=wtd, replay=rep)
        away = Or(B == 0, And(B > 0, lex_lt(t1, t0)), And(B < 0, lex_lt(t0, t1)))
        rets = direction('td', ex, outs, away, wtd, rep)
        for out in rets:
            R, st = out.val, out.st
            L = L_len(R)
            ej, ej1, e0, el = L_at(st, R, j), L_at(st, R, j + 1), L_at(st, R, 0), L_at(st, R, L - 1)
            hy = ex.facts + st.pc + [KBREC(j), KBREC(L - 1)]
            inr, inr1 = And(0 <= j, j < L), And(0 <= j, j + 1 < L)
            ctx.post('td.nonempty_and_starts_at_t0', hy, And(L >= 1, pair_eq(e0, t0)), witness=wtd, replay=rep)
            ctx.post('td.jth_is_t0_plus_j_bumps', hy + [inr], And(tot(ej) == T0 + KB(j), norm(ej)), witness=wtd, replay=rep)
            ctx.post('td.next_is_previous_plus_bump', hy + [inr1], pair_eq(ej1, dt_add(ej, TD(bd, bu))), witness=wtd, replay=rep)
            ctx.post('td.within_the_endpoints', hy + [inr], between(t0, ej, t1), witness=wtd, replay=rep)
            ctx.post('td.maximal', hy, Not(between(t0, dt_add(el, TD(bd, bu)), t1)), witness=wtd, replay=rep)
            ctx.post('td.strictly_monotone', hy + [inr1], If(B > 0, lex_lt(ej, ej1), lex_lt(ej1, ej)), witness=wtd, replay=rep)
        ctx.cover('td.forward_reachable', pre + [lex_lt(t0, t1), B > 0, KB(1) == B, KB(2) == 2 * B, tot(t1) > T0 + 2 * B])
        ctx.cover('td.backward_reachable', pre + [lex_lt(t1, t0), B < 0])
    ctx.guarded('td', td_section)

    # ================================================================== 4. business days: 'nb'
    N = toks.tn(IntVal(0))
    absN = If(N >= 0, N, -N)
    single_pre = lambda u: [toks.tu(IntVal(0)) == ord(u)]
    witN = dict(o0=o0, u0=u0, o1=o1, u1=u1, n=N)

    def b_inv(st, entry):
        nm = 'b.weekdays'
        k, res, it = st.ghost[nm + '.k'], st.ghost[nm + '.res'], st.ghost[nm + '.iter']
        if it.kind != 'rrule' or it.freq != 'DAILY':
            raise OutOfSubset('the weekday comprehension no longer iterates over a daily rrule')
        lo, us0 = it.a.t, whole_second(it.a.us)
        L = L_len(res)
        p = Int('p!inv')
        ep = L_at(st, res, p)
        return [('length_is_weekday_count', L == W(lo + k - 1) - W(lo - 1)),
                ('members_are_the_weekdays_in_order', ForAll([p], Implies(And(0 <= p, p < L), And(wd(ep.t) < 5, W(ep.t) - W(lo - 1) == p + 1, ep.us == us0,
                                                                                                  lo <= ep.t, ep.t <= lo + k - 1))))]

    def b_section():
        rep = call_of(lambda g: dict(str='%db' % (g('n', 1) or 1)))
        pre = DOM + [u0 == u1, Not(pair_eq(t0, t1)), N != 0] + single_pre('b')
        ex, outs = run(ctx, mach, toks.tenor(1, 0, 0), pre, 'b', loops={id(comp): LoopSpec('b.weekdays', b_inv)}, unit='b', witness=witN, replay=rep)
        rets = direction('b', ex, outs, Or(And(N > 0, lex_lt(t1, t0)), And(N < 0, lex_lt(t0, t1))), witN, rep)
        lo, hi = If(o0 <= o1, o0, o1), If(o0 <= o1, o1, o0)
        x, i = Ints('X I')
        for out in rets:
            R, st = out.val, out.st
            F = st.ghost.get('b.weekdays.res')
            if F is None:
                raise OutOfSubset("'nb' path does not go through the weekday comprehension")
            L, LF = L_len(R), L_len(F)
            ej, ej1, ei = L_at(st, R, j), L_at(st, R, j + 1), L_at(st, R, i)
            rank = lambda o: If(N > 0, W(o) - W(lo - 1) - 1, W(hi) - W(o))       # position among the weekdays, counted from the t0 side
            inst = lambda q: [mul_zero(absN), mul_one(q), mul_rec(q, absN), mul_mono(0, q, absN), mul_mono(q, L - 1, absN), mul_mono(L, q, absN), mul_rec(L - 1, absN)]
            hy = ex.facts + st.pc + [u0 % SEC == 0]
            w = dict(witN, j=j, x=x, i=i)
            inr, inr1 = And(0 <= j, j < L), And(0 <= j, j + 1 < L)
            ctx.post('b.elements_are_weekdays_between_the_endpoints', hy + inst(j) + [inr], And(wd(ej.t) < 5, lo <= ej.t, ej.t <= hi, ej.us == u0), witness=w, replay=rep)
            ctx.post('b.jth_is_the_weekday_number_j_times_n', hy + inst(j) + [inr], rank(ej.t) == MUL(j, absN), witness=w, replay=rep)
            ctx.post('b.lists_every_nth_weekday', hy + inst(i) + [wd(x) < 5, lo <= x, x <= hi, i >= 0, rank(x) == MUL(i, absN),
                                                                   W_MONO(lo - 1, x), W_MONO(x, hi), W_INJ(x, ei.t), W_STEP(lo - 1), W_STEP(x - 1)],
                     And(i < L, ei.t == x), witness=w, replay=rep)
            ctx.post('b.strictly_monotone', hy + inst(j) + inst(j + 1) + [inr1, W_MONO(ej1.t, ej.t), W_MONO(ej.t, ej1.t), mul_strict(j, j + 1, absN)],
                     If(N > 0, ej.t < ej1.t, ej1.t < ej.t), witness=w, replay=rep)
            ctx.known('b.elements_keep_the_time_of_day.subsecond_start', ex.facts + st.pc + inst(j) + [inr, u0 % SEC != 0], ej.us == u0, key=K_SUBSEC,
                      witness=w, replay=rep)
        ctx.cover('b.forward_reachable', pre + [N == 2, o1 > o0 + 20])
        ctx.cover('b.backward_reachable', pre + [N == -3, o1 < o0 - 20])
    ctx.guarded('b', b_section)

    # ================================================================== 5. positive single periods handed to rrule
    def unit_section():
        for u in 'dwhnsmqy':
            rep = call_of(lambda g, u=u: dict(str='%d%s' % (max(1, g('n', 1)), u)))
            pre = DOM + [Not(pair_eq(t0, t1)), N > 0, N <= 10 ** 6] + single_pre(u)
            ex, outs = run(ctx, mach, toks.tenor(1, 0, 0), pre, 'unit.' + u, unit=u, witness=witN, replay=rep)
            rets = direction('unit.' + u, ex, outs, lex_lt(t1, t0), witN, rep)
            if u in 'mqy':
                # rrule MONTHLY / YEARLY is not axiomatised: nothing is claimed about the list, only about what rrule is asked for
                for out in rets:
                    rc = out.st.ghost.get('rrule.call')
                    if rc is None:
                        raise OutOfSubset("positive '%s' period does not reach rrule" % u)
                    want_f, want_k = {'m': ('MONTHLY', N), 'q': ('MONTHLY', 3 * N), 'y': ('YEARLY', N)}[u]
                    ctx.post('unit.%s.asks_rrule_for_steps_of_n_periods_from_t0_until_t1' % u, ex.facts + out.st.pc,
                             And(BoolVal(rc.freq == want_f), rc.interval == want_k, pair_eq(rc.a, t0), pair_eq(rc.b, t1)), witness=witN, replay=rep)
                continue
            for out in rets:
                R, st = out.val, out.st
                L = L_len(R)
                ej, ej1, e0, el = L_at(st, R, j), L_at(st, R, j + 1), L_at(st, R, 0), L_at(st, R, L - 1)
                inst = [mul_zero(N), mul_one(j), mul_rec(j, N), mul_rec(L - 1, N), mul_mono(0, j, N), mul_mono(j, L - 1, N), mul_mono(0, L - 1, N)]
                hy = ex.facts + st.pc + inst + [u0 % SEC == 0]
                w = dict(witN, j=j)
                inr, inr1 = And(0 <= j, j < L), And(0 <= j, j + 1 < L)
                step = lambda a, b: And(*C09.post_token(u, a.t, a.us, N, b.t, b.us).values())    # C09's clause for one token (n, u)
                unit_us = {'d': DAYUS, 'w': 7 * DAYUS, 'h': 3600 * SEC, 'n': 60 * SEC, 's': SEC}[u]
                nxt = fresh_int('next_o'), fresh_int('next_us')
                ctx.post('unit.%s.nonempty_and_starts_at_t0' % u, hy, And(L >= 1, pair_eq(e0, t0)), witness=w, replay=rep)
                ctx.post('unit.%s.jth_is_t0_plus_j_periods' % u, hy + [inr], And(tot(ej) == T0 + unit_us * MUL(j, N), norm(ej)), witness=w, replay=rep)
                ctx.post('unit.%s.next_is_dt_bump_of_previous' % u, hy + [inr1], step(ej, ej1), witness=w, replay=rep)
                ctx.post('unit.%s.within_the_endpoints' % u, hy + [inr], between(t0, ej, t1), witness=w, replay=rep)
                ctx.post('unit.%s.maximal' % u, hy + [step(el, DT(*nxt)), norm(DT(*nxt))], Not(between(t0, DT(*nxt), t1)), witness=w, replay=rep)
                ctx.post('unit.%s.strictly_monotone' % u, hy + [inr1], lex_lt(ej, ej1), witness=w, replay=rep)
                ctx.known('unit.%s.nonempty_and_starts_at_t0.subsecond_start' % u, ex.facts + st.pc + inst + [u0 % SEC != 0], And(L >= 1, pair_eq(e0, t0)),
                          key=K_SUBSEC, witness=w, replay=rep)
            ctx.cover('unit.%s.pre_satisfiable' % u, pre + [lex_lt(t0, t1)])
    ctx.guarded('unit', unit_section)

    # ================================================================== 6. compound and negative single periods: the dt_bump loops
    NTOK = Int('NTOK')
    qo, qu = Ints('o!q us!q')
    # hypothesis of this section (see section 7 and the trust entry): with every part positive dt_bump moves every t forward (INC), with every part
    # negative backward (DEC).  It is used at instances only - t0, the t of an arbitrary iteration, an arbitrary element - which keeps quantifiers
    # out of the path conditions.
    INC = lambda x: Implies(norm(x), lex_lt(x, BUMP(x)))
    DEC = lambda x: Implies(norm(x), lex_lt(BUMP(x), x))

    def loop_inv(sign):
        def inv(st, entry):
            res, t = st.env['res'], st.env['t']
            L = L_len(res)
            k = Int('k!inv')
            ek, ek1 = L_at(st, res, k), L_at(st, res, k + 1)
            inside = (lambda x: And(lex_le(t0, x), lex_le(x, t1))) if sign > 0 else (lambda x: And(lex_le(t1, x), lex_le(x, t0)))
            ahead = (lambda x: lex_le(t0, x)) if sign > 0 else (lambda x: lex_le(x, t0))
            last = L_at(st, res, L - 1)
            return [('length_nonnegative', L >= 0),
                    ('t_is_normalised', norm(t)),
                    ('t_not_behind_t0', ahead(t)),
                    ('t_is_t0_before_the_first_append', Implies(L == 0, pair_eq(t, t0))),
                    ('t_is_dt_bump_of_the_last_element', Implies(L >= 1, pair_eq(t, BUMP(last)))),
                    ('first_element_is_t0', Implies(L >= 1, pair_eq(L_at(st, res, 0), t0))),
                    ('elements_inside', ForAll([k], Implies(And(0 <= k, k < L), And(norm(ek), inside(ek))))),
                    ('chain', ForAll([k], Implies(And(0 <= k, k + 1 < L), pair_eq(ek1, BUMP(ek)))))]
        return inv

    def mono_at_loop_head(mono):
        def havoc(ex, st):
            st.pc.append(mono(st.env['t']))
        return havoc

    loop_specs = {id(whiles[2]): LoopSpec('loop.While2', loop_inv(1), variant=lambda st: tot(t1) - tot(st.env['t']), ghost_havoc=mono_at_loop_head(INC)),
                  id(whiles[3]): LoopSpec('loop.While3', loop_inv(-1), variant=lambda st: tot(st.env['t']) - tot(t1), ghost_havoc=mono_at_loop_head(DEC))}

    def loop_posts(prefix, ex, rets, sign, w0, rep):
        for out in rets:
            R, st = out.val, out.st
            L = L_len(R)
            ej, ej1, e0, el = L_at(st, R, j), L_at(st, R, j + 1), L_at(st, R, 0), L_at(st, R, L - 1)
            mono = INC if sign > 0 else DEC
            hy = ex.facts + st.pc + [mono(ej)]
            w = dict(w0, j=j)
            inr, inr1 = And(0 <= j, j < L), And(0 <= j, j + 1 < L)
            ctx.post(prefix + '.nonempty_and_starts_at_t0', hy, And(L >= 1, pair_eq(e0, t0)), witness=w, replay=rep)
            ctx.post(prefix + '.next_is_dt_bump_of_previous', hy + [inr1], pair_eq(ej1, BUMP(ej)), witness=w, replay=rep)
            ctx.post(prefix + '.within_the_endpoints', hy + [inr], between(t0, ej, t1), witness=w, replay=rep)
            ctx.post(prefix + '.maximal', hy, Not(between(t0, BUMP(el), t1)), witness=w, replay=rep)
            ctx.post(prefix + '.strictly_monotone', hy + [inr1], lex_lt(ej, ej1) if sign > 0 else lex_lt(ej1, ej), witness=w, replay=rep)

    def loop_section():
        for sign, label, mono, shape, tenor in ((1, 'forward', INC, [NTOK >= 2], '2d3h'),
                                                (-1, 'backward', DEC, [Or(NTOK >= 2, And(NTOK == 1, toks.tu(IntVal(0)) != ord('b'), N < 0))], '-2d-3h')):
            def spec(g, tenor=tenor, sign=sign):
                # a one-token model is replayed with that token, anything else with a fixed two-part tenor of the right sign
                if g('ntok') == 1 and chr(g('unit', 100)) in 'dwmqyhns' and g('n') * sign > 0:
                    return dict(str='%d%s' % (max(-60, min(60, g('n'))), chr(g('unit', 100))))
                return dict(str=tenor)
            rep = call_of(spec)
            wl = dict(wit, n=N, ntok=NTOK, unit=toks.tu(IntVal(0)))
            pre = DOM + [Not(pair_eq(t0, t1)), NTOK >= 1, mono(t0)] + shape
            ex, outs = run(ctx, mach, toks.tenor(NTOK, 0, 0), pre, 'loop.' + label, loops=loop_specs, witness=wl, replay=rep)
            away = lex_lt(t1, t0) if sign > 0 else lex_lt(t0, t1)
            rets = direction('loop.' + label, ex, outs, away, wl, rep)
            loop_posts('loop.' + label, ex, rets, sign, wl, rep)
            ctx.cover('loop.%s.pre_satisfiable' % label, pre + [away == BoolVal(False)])
    ctx.guarded('loop', loop_section)

    def negative_section():
        # negative single periods, one concrete unit letter at a time: they must reach the dt_bump loop, never rrule (whose callee precondition
        # interval >= 1 they would violate: the defect repaired by ef9056c)
        for u in 'dwhnsmqy':
            rep = call_of(lambda g, u=u: dict(str='%d%s' % (min(-1, g('n', -1)), u)))
            pre = DOM + [Not(pair_eq(t0, t1)), N < 0, DEC(t0)] + single_pre(u)
            ex, outs = run(ctx, mach, toks.tenor(1, 0, 0), pre, 'negative.' + u, loops=loop_specs, unit=u, witness=witN, replay=rep)
            rets = direction('negative.' + u, ex, outs, lex_lt(t0, t1), witN, rep)
            loop_posts('negative.' + u, ex, rets, -1, witN, rep)
    ctx.guarded('negative', negative_section)

    # ================================================================== 7. why BUMP moves forward when every part is positive
    def bump_direction_section():
        mach09 = C09.machinery(ctx)
        o, us, nn = Ints('O US N9')
        w9 = dict(o=o, us=us, n=nn)
        for u in C09.UNITS:
            for sign, label in ((1, 'positive_token_moves_forward'), (-1, 'negative_token_moves_backward')):
                R, total, raises, ex9, hy = C09.run_region(ctx, mach09, o, us, nn, u, 'lemma.dt_bump', [nn > 0] if sign > 0 else [nn < 0])
                ctx.trusted |= ex9.trusted
                if u in 'mqy':
                    k = {'m': nn, 'q': 3 * nn, 'y': 12 * nn}[u]
                    hy = hy + C09.month_lemmas(o, k)
                goal = lex_lt(DT(o, us), R) if sign > 0 else lex_lt(R, DT(o, us))
                ctx.post('lemma.dt_bump.%s.%s' % (u, label), hy, goal, kind='lemma', witness=w9, replay=C09.replay_token(u))
        # a chain of increasing steps increases: induction on its length
        Go, Gu = Function('G_o', IntSort(), IntSort()), Function('G_us', IntSort(), IntSort())
        G = lambda k: DT(Go(k), Gu(k))
        kk, nn2 = Ints('k!ch n!ch')
        P = lambda m_: Implies(ForAll([kk], Implies(And(0 <= kk, kk < m_), lex_lt(G(kk), G(kk + 1)))), lex_lt(G(0), G(m_)))
        ctx.post('lemma.chain_of_increasing_steps_increases.base', [], P(IntVal(1)), kind='lemma')
        ctx.post('lemma.chain_of_increasing_steps_increases.step', [nn2 >= 1, P(nn2)], P(nn2 + 1), kind='lemma')
    ctx.guarded('bump_direction', bump_direction_section)

    # ================================================================== 8. n, timedelta(n) and 'nd' give identical lists
    def agreement_section():
        """two lists that both satisfy the step-form postcondition (start at t0, next = step(previous), all inside, maximal) for the same
        step function are equal: elements by induction on the index, then the lengths"""
        So, Su = Function('S_o', IntSort(), IntSort(), IntSort()), Function('S_us', IntSort(), IntSort(), IntSort())
        step = lambda x: DT(So(x.t, x.us), Su(x.t, x.us))
        Ao, Au, Bo, Bu = [Function(nm, IntSort(), IntSort()) for nm in ('A_o', 'A_us', 'B_o', 'B_us')]
        A, Bl = (lambda k: DT(Ao(k), Au(k))), (lambda k: DT(Bo(k), Bu(k)))
        LA, LB, k = Ints('LA LB k!ag')
        inside = lambda x: lex_le(x, t1)

        def POST(X, LX):
            return [LX >= 1, pair_eq(X(0), t0), ForAll([k], Implies(And(0 <= k, k + 1 < LX), pair_eq(X(k + 1), step(X(k))))),
                    ForAll([k], Implies(And(0 <= k, k < LX), inside(X(k)))), Not(inside(step(X(LX - 1))))]
        E = lambda q: Implies(And(0 <= q, q < LA, q < LB), pair_eq(A(q), Bl(q)))
        hyp = POST(A, LA) + POST(Bl, LB)
        ctx.post('lemma.agreement.elements.base', hyp, E(IntVal(0)), kind='lemma')
        ctx.post('lemma.agreement.elements.step', hyp + [j >= 0, E(j)], E(j + 1), kind='lemma')
        ctx.post('lemma.agreement.same_length', hyp + [E(LA - 1), E(LB - 1)], LA == LB, kind='lemma')
        # the three spellings have the same step function: + n days
        x = DT(*Ints('XO XU'))
        ctx.post('lemma.agreement.timedelta_of_n_days_is_the_int_step', [norm(x)], pair_eq(dt_add(x, TD(n, 0)), DT(x.t + n, x.us)), kind='lemma')
        y = DT(*Ints('YO YU'))
        ctx.post('lemma.agreement.nd_token_is_the_int_step', [norm(x), norm(y), And(*C09.post_token('d', x.t, x.us, n, y.t, y.us).values())],
                 pair_eq(y, DT(x.t + n, x.us)), kind='lemma')
    ctx.guarded('agreement', agreement_section)

    ctx.trust('induction schema over the integers (base and step discharged as separate obligations)')
    ctx.trust('KB(k) = k*bump is an uninterpreted function constrained by KB(0) = 0 and instances of KB(k+1) = KB(k) + bump')
    ctx.trust('link to C09 (not re-proved here): BUMP(t) = dt_bump(t, s) is the left-to-right fold of the per-token steps (C09 dt_bump.compound.*); with '
              'every part positive, lemma.dt_bump.<u>.positive_token_moves_forward and lemma.chain_of_increasing_steps_increases give BUMP(t) > t for '
              'every t (hypothesis INC of the loop section), mirrored for negative parts; a tenor whose parts have mixed signs is outside the property')
    ctx.trust('start dates and end dates lie in 1900-2300; results of the last bump past t1 are assumed to stay inside datetime.MINYEAR..MAXYEAR')
    ctx.trust("a zero business-day bump ('0b') is outside the property (no direction): drange returns every weekday for it instead of raising")
