"""C09 - dt_bump adds business days, calendar units and compound tenors exactly.

Functions under contract (real source, re-read on every run):
  pyg_base._dates:dt_bump   body of `for bump in bumps` (For#0): int / timedelta / tenor-string branches, the token
                            loop While#0 and the per-token if/elif chain (last statement of While#0)
  pyg_base._dates:_ymd, ym, month   inlined into the caller's VC
Excluded by stated path precondition: the prelude of dt_bump (as_list, the is_ts branch, dt(t) coercion, NaT) and the
time-zone tail (`if len(bump)` after the loop) - i.e. t is a tz-naive datetime and a tenor has no non-period remainder.
"""
import ast
import z3
from z3 import And, Or, Not, If, Implies, Int, Ints, IntVal, BoolVal, ForAll, Array, IntSort, Store, Select, Function

from pyvc.front import select, SelectorError, OutOfSubset
from pyvc.symex import Exec, State, LoopSpec
from pyvc.contract import suffix, summarize
from pyvc.theories import Globals, TypePreds, Dates, ConcreteStr, Tokens, civil, civil_of_dfc
from pyvc.sv import SV, I, S, T, DT, TD, DAYUS, dfc, DFC, valid_ymd, next_month, dim, wd, W, ym_spec, lex_le, pair_eq, merge_sv, fresh_int

PROP = 'C09'
O_LO, O_HI = 693596, 839693          # ordinals of 1900-01-01 and 2300-01-01 (checked against CPython by the axiom validation)
NMAX = 1800                          # |n| bound that keeps every result inside datetime.MINYEAR..MAXYEAR (property needs 60)
UNITS = 'dwmqyhnsb'
NAMED = {'spot': 0, 'on': 1, 'o/n': 1, 'tn': 2, 't/n': 2, 'sn': 3, 's/n': 3}


def machinery(ctx):
    m = ctx.mod('_dates')
    fn = m.func('dt_bump')
    forloop = select(fn, 'For#0')
    while0 = select(forloop, 'While#0')
    region = while0.body[-1]
    if not isinstance(region, ast.If):
        raise SelectorError('last statement of dt_bump/While#0 is not the per-token if-chain')
    toks = Tokens(m)
    theories = [Globals(m, ['DAY', '_bumps']), TypePreds(), Dates(), ConcreteStr(m, ['period']), toks]
    inline = {name: (m, m.func(name)) for name in ('_ymd', 'ym', 'month')}
    return m, fn, forloop, while0, region, toks, theories, inline


def in_domain(o, us, n):
    Y, M, D, ax = civil(o)
    return [ax, 1900 <= Y, Y < 2300, 0 <= us, us < DAYUS, -NMAX <= n, n <= NMAX]


def LIN(y, m, d):
    """lemma instance (proved in build): the ordinal is linear in the day of month"""
    return DFC(y, m, d) == DFC(y, m, 1) + d - 1


def NEXT(y, m):
    """lemma instance (proved in build): the first of the next month is dim(y,m) days after the first of this month"""
    y1, m1 = next_month(y, m)
    return Implies(And(1 <= m, m <= 12), DFC(y1, m1, 1) == DFC(y, m, 1) + dim(y, m))


def YM_BACK(Y, M, k):
    """lemma instance (proved in build): normalising M+k months and then going k months back returns to (Y, M)"""
    y2, m2 = ym_spec(Y, M + k)
    yb, mb = ym_spec(y2, m2 - k)
    return Implies(And(1 <= M, M <= 12), And(yb == Y, mb == M))


def month_lemmas(o, k):
    """the lemma and axiom instances the month-unit goals need for a shift of k months from ordinal o"""
    Y, M, D, ax = civil(o)
    y2, m2 = ym_spec(Y, M + k)
    y3, m3 = ym_spec(Y, M + k + 1)
    return [LIN(y2, m2, D), LIN(y3, m3, D - dim(y2, m2)), NEXT(y2, m2), civil_of_dfc(y2, m2, D),
            y3 == next_month(y2, m2)[0], m3 == next_month(y2, m2)[1]]


def post_token(u, o, us, n, o2, us2):
    """the property's clause for one token (n, unit u) taken from the property statement, not from the code"""
    tot, tot2 = o * DAYUS + us, o2 * DAYUS + us2
    norm = And(0 <= us2, us2 < DAYUS)
    if u == 'd':
        return {'exact': And(o2 == o + n, us2 == us)}
    if u == 'w':
        return {'exact': And(o2 == o + 7 * n, us2 == us)}
    if u in 'hns':
        k = {'h': 3600, 'n': 60, 's': 1}[u] * 10 ** 6
        return {'exact': tot2 == tot + n * k, 'normalised': norm}
    if u == 'b':
        o1 = If(wd(o) > 4, o + (7 - wd(o)), o)
        return {'lands_on_weekday': wd(o2) < 5, 'nth_weekday_from_rolled_start': W(o2) - W(o1) == n,
                'keeps_time_of_day': us2 == us}
    # month based units, claimed at midnight
    Y, M, D, ax = civil(o)
    k = {'m': n, 'q': 3 * n, 'y': 12 * n}[u]
    y2, m2 = ym_spec(Y, M + k)
    y3, m3 = ym_spec(Y, M + k + 1)
    return {'keeps_day_when_it_exists': Implies(And(ax, D <= dim(y2, m2)), And(o2 == DFC(y2, m2, D), us2 == 0)),
            'rolls_excess_into_next_month': Implies(And(ax, D > dim(y2, m2)), And(o2 == DFC(y3, m3, D - dim(y2, m2)), us2 == 0))}


def run_region(ctx, mach, o, us, n, u, name, extra_pre=()):
    """symbolically execute the real per-token if-chain from t=(o,us), bmp=(n, unit letter u);
    returns (merged result SV, raises [(cond, exc)], executor, hypotheses = precondition + axiom instances used)"""
    m, fn, forloop, while0, region, toks, theories, inline = mach
    ex = Exec(m, theories, inline=inline, name=name)
    st = State(env={'t': DT(o, us), 'bmp': toks.tok(n, IntVal(ord(u)))})
    st.pc += in_domain(o, us, n) + list(extra_pre)
    pre = list(st.pc)
    base = len(st.pc)
    outs = ex.run_stmt(st, region)
    vals, raises = [], []
    for out in outs:
        if out.kind in ('next', 'continue'):        # `continue` inside the token loop ends this token's step with the current t
            vals.append((suffix(out.st, base), out.st.env['t']))
        elif out.kind == 'raise':
            raises.append((suffix(out.st, base), out.val))
        else:
            raise OutOfSubset('unexpected %s in token region' % out.kind)
    if not vals:
        raise OutOfSubset('token region has no normal path')
    val = vals[-1][1]
    for c, v in reversed(vals[:-1]):
        val = merge_sv(c, v, val)
        if val is None:
            raise OutOfSubset('token region: result shapes differ')
    total = Or(*([c for c, _ in vals] + [c for c, _ in raises]))
    return val, total, raises, ex, pre + ex.facts


def build(ctx):
    mach = machinery(ctx)
    m, fn, forloop, while0, region, toks, theories, inline = mach
    o, us, n, unit = Ints('O US N UNIT')
    _Y, _M, _D, _ax = civil(o)
    wit = dict(o=o, us=us, n=n, Y=_Y, M=_M, D=_D)

    # ---------------------------------------------------------------- 1. per-token postconditions
    def token_section():
        for u in UNITS:
            mid = [us == 0] if u in 'mqy' else []
            R, total, raises, ex, hy = run_region(ctx, mach, o, us, n, u, 'dt_bump.token', mid)
            ctx.absorb(ex)
            ctx.record_function(m, 'dt_bump', fn, ex.stmts_executed,
                                excluded=['prelude (as_list, is_ts branch, dt() coercion, NaT): path precondition "t is a tz-naive datetime"',
                                          'time-zone tail after the token loop: path precondition "tenor has no non-period remainder"',
                                          'is_tz(bump) and generic `t + bump` branches: bump is an int, a timedelta or a tenor string'])
            for f in ('_ymd', 'ym', 'month'):
                ctx.record_function(m, f, m.func(f), ex.stmts_executed, how='inlined into dt_bump')
            if u in 'mqy':
                hy = hy + month_lemmas(o, {'m': n, 'q': 3 * n, 'y': 12 * n}[u])
            ctx.cover('dt_bump.token.%s.pre_satisfiable' % u, hy)
            ctx.post('dt_bump.token.%s.paths_exhaustive' % u, hy, total, witness=wit, replay=replay_token(u))
            for cname, goal in post_token(u, o, us, n, R.t, R.us).items():
                ctx.post('dt_bump.token.%s.%s' % (u, cname), hy, goal, witness=wit, replay=replay_token(u))
            for k, (c, exc) in enumerate(raises):
                ctx.post('dt_bump.token.%s.never_raises.%s' % (u, exc), hy, Not(c), kind='safety', witness=wit, replay=replay_token(u))
        # reachability: month units really go through the overflow arithmetic (both spec branches non-vacuous)
        Y, M, D, ax = civil(o)
        y2, m2 = ym_spec(Y, M + n)
        ctx.cover('dt_bump.token.m.day_exists_reachable', in_domain(o, us, n) + [us == 0, ax, D <= dim(y2, m2)])
        ctx.cover('dt_bump.token.m.day_overflow_reachable', in_domain(o, us, n) + [us == 0, ax, D > dim(y2, m2)])

    ctx.guarded('dt_bump.token', token_section)

    # ---------------------------------------------------------------- 1b. calendar lemmas used above (proved from the revealed definition)
    yy, mm, dd_ = Ints('LY LM LD')
    ctx.post('lemma.ordinal_linear_in_day', [], LIN(yy, mm, dd_), kind='lemma')
    ctx.post('lemma.first_of_next_month', [], NEXT(yy, mm), kind='lemma')
    y2_, m2_ = ym_spec(yy, mm)
    kk = Int('LK')
    ctx.post('lemma.ym_back', [], YM_BACK(yy, mm, kk), kind='lemma')
    ctx.post('lemma.ym_spec_normalises', [], And(1 <= m2_, m2_ <= 12, 12 * y2_ + m2_ == 12 * yy + mm), kind='lemma')

    # ---------------------------------------------------------------- 2. lemmas over the region's own summary
    def lemma_section():
        # monotone in t (business days)
        oa, ua, ob, ub = Ints('OA UA OB UB')
        Ra, _, _, ex1, pa = run_region(ctx, mach, oa, ua, n, 'b', 'dt_bump.lemma')
        Rb, _, _, ex2, pb = run_region(ctx, mach, ob, ub, n, 'b', 'dt_bump.lemma')
        ctx.trusted |= ex1.trusted | ex2.trusted
        ta, tb = DT(oa, ua), DT(ob, ub)
        wm = dict(o=oa, us=ua, o2=ob, us2=ub, n=n)
        # the statement's two clauses "from a weekend day first rolls forward to Monday" (keeping the time of day) and
        # "monotone in t" contradict each other for an earlier weekend start with a later time of day: known finding F1
        ctx.post('dt_bump.lemma.b.monotone_in_t', pa + pb + [lex_le(ta, tb), Or(wd(oa) < 5, ua <= ub)], lex_le(Ra, Rb),
                 kind='lemma', witness=wm, replay=replay_lemma('monotone', 'b'))
        ctx.known('dt_bump.lemma.b.monotone_in_t.weekend_start_with_later_time_of_day',
                  pa + pb + [lex_le(ta, tb), Not(Or(wd(oa) < 5, ua <= ub))], lex_le(Ra, Rb),
                  key='C09:monotone:weekend-start-later-time-of-day', witness=wm, replay=replay_lemma('monotone', 'b'))
        # composition of same-sign business-day bumps from a weekday
        a, b = Ints('A B')
        R1, _, _, ex3, p1 = run_region(ctx, mach, o, us, a, 'b', 'dt_bump.lemma')
        R2, _, _, ex4, p2 = run_region(ctx, mach, R1.t, R1.us, b, 'b', 'dt_bump.lemma')
        R3, _, _, ex5, p3 = run_region(ctx, mach, o, us, a + b, 'b', 'dt_bump.lemma')
        same = Or(And(a >= 0, b >= 0), And(a <= 0, b <= 0))
        ctx.post('dt_bump.lemma.b.same_sign_bumps_compose', p1 + p2 + p3 + [wd(o) < 5, same], pair_eq(R2, R3),
                 kind='lemma', witness=dict(o=o, us=us, a=a, b=b), replay=replay_lemma('compose', 'b'))
        # round trips
        for u in UNITS:
            extra = []
            if u == 'b':
                extra.append(wd(o) < 5)
            if u in 'mqy':
                Y, M, D, ax = civil(o)
                extra += [us == 0, ax, D <= 28]
            Rf, _, _, e1, q1 = run_region(ctx, mach, o, us, n, u, 'dt_bump.lemma', extra)
            Rr, _, _, e2, q2 = run_region(ctx, mach, Rf.t, Rf.us, -n, u, 'dt_bump.lemma')
            if u in 'mqy':
                k = {'m': n, 'q': 3 * n, 'y': 12 * n}[u]
                y2, m2 = ym_spec(Y, M + k)
                q2 = q2 + month_lemmas(o, k) + [LIN(Y, M, D), YM_BACK(Y, M, k)]
            ctx.post('dt_bump.lemma.%s.plus_then_minus_returns' % u, q1 + q2, pair_eq(Rr, DT(o, us)), kind='lemma',
                     witness=wit, replay=replay_lemma('roundtrip', u))

    ctx.guarded('dt_bump.lemma', lemma_section)

    # ---------------------------------------------------------------- 3. the body of `for bump in bumps`
    def body_section():
        # (a) integer bump
        ex = Exec(m, theories, inline=inline, name='dt_bump.int')
        st = State(env={'t': DT(o, us), 'bump': I(n)}); st.pc += in_domain(o, us, n); base = list(st.pc)
        outs = ex.run_block(st, forloop.body)
        ctx.absorb(ex); ctx.record_function(m, 'dt_bump', fn, ex.stmts_executed)
        for out in outs:
            if out.kind != 'next':
                ctx.post('dt_bump.int.never_raises_or_returns_early', out.st.pc, BoolVal(False), kind='safety', witness=wit)
                continue
            r = out.st.env['t']
            ctx.post('dt_bump.int.adds_exactly_n_days', out.st.pc, And(r.t == o + n, r.us == us), witness=wit, replay=replay_scalar('int'))
        # (b) timedelta bump
        dd, du_ = Ints('DD DU')
        ex = Exec(m, theories, inline=inline, name='dt_bump.timedelta')
        st = State(env={'t': DT(o, us), 'bump': TD(dd, du_)}); st.pc += in_domain(o, us, n) + [0 <= du_, du_ < DAYUS, -10 ** 6 <= dd, dd <= 10 ** 6]
        outs = ex.run_block(st, forloop.body)
        ctx.absorb(ex); ctx.record_function(m, 'dt_bump', fn, ex.stmts_executed)
        for out in outs:
            if out.kind != 'next':
                ctx.post('dt_bump.timedelta.never_raises_or_returns_early', out.st.pc, BoolVal(False), kind='safety')
                continue
            r = out.st.env['t']
            ctx.post('dt_bump.timedelta.adds_exactly', out.st.pc,
                     And(r.t * DAYUS + r.us == o * DAYUS + us + dd * DAYUS + du_, 0 <= r.us, r.us < DAYUS),
                     witness=dict(o=o, us=us, dd=dd, du=du_), replay=replay_scalar('timedelta'))
        # (c) named tenors, executed concretely through the real _bumps table and the real regex
        tbl = m.global_assign('_bumps')
        names = [k.value for k in tbl.keys] if isinstance(tbl, ast.Dict) else []
        for nm in sorted(set(names) | set(NAMED)):
            ex = Exec(m, theories, inline=inline, name='dt_bump.named')
            st = State(env={'t': DT(o, us), 'bump': S(nm)}); st.pc += in_domain(o, us, n)
            outs = ex.run_block(st, forloop.body)
            ctx.absorb(ex); ctx.record_function(m, 'dt_bump', fn, ex.stmts_executed)
            goal_parts = []
            for out in outs:
                if out.kind != 'next':
                    ctx.post('dt_bump.named.%s.never_raises' % nm, out.st.pc, BoolVal(False), kind='safety', witness=wit, replay=replay_named(nm))
                    continue
                r = out.st.env['t']
                if nm in NAMED:
                    for cname, goal in post_token('b', o, us, IntVal(NAMED[nm]), r.t, r.us).items():
                        ctx.post('dt_bump.named.%s.%s' % (nm, cname), out.st.pc, goal, witness=wit, replay=replay_named(nm))
        # (d) symbolic tenor: token loop with ghost history G[k] = value of t after k tokens
        ntok = Int('NTOK')
        STEPo = Function('STEP_o', IntSort(), IntSort(), IntSort(), IntSort(), IntSort())
        STEPu = Function('STEP_us', IntSort(), IntSort(), IntSort(), IntSort(), IntSort())

        def inv(st, entry):
            t, bump = st.env['t'], st.env['bump']
            Go, Gu = st.ghost['Go'], st.ghost['Gu']
            k = Int('k!inv')
            return [('bounds', And(0 <= bump.pos, bump.pos <= ntok)),
                    ('current', And(Go[bump.pos] == t.t, Gu[bump.pos] == t.us)),
                    ('start', And(Go[0] == o, Gu[0] == us)),
                    ('chain', ForAll([k], Implies(And(0 <= k, k < bump.pos),
                                                  And(Go[k + 1] == STEPo(Go[k], Gu[k], toks.tn(k), toks.tu(k)),
                                                      Gu[k + 1] == STEPu(Go[k], Gu[k], toks.tn(k), toks.tu(k))))))]

        def ghost_havoc(ex, st):
            st.ghost['Go'] = Array(z3_fresh('Go'), IntSort(), IntSort())
            st.ghost['Gu'] = Array(z3_fresh('Gu'), IntSort(), IntSort())

        pre_body = {}

        def before_region(ex, st, s):      # remember the state in which the per-token region starts
            pre_body[id(st)] = None

        def after_region(ex, st, s):
            # the region's result is a function of (t, token): name it STEP (definition instance for this iteration) and
            # record it in the ghost history.  Section 1 proves what STEP is.
            t0v = st.ghost['t_before']
            bmp = st.env['bmp']
            t = st.env['t']
            st.pc.append(And(t.t == STEPo(t0v.t, t0v.us, bmp.n, bmp.unit), t.us == STEPu(t0v.t, t0v.us, bmp.n, bmp.unit)))
            pos = st.env['bump'].pos
            st.ghost['Go'] = Store(st.ghost['Go'], pos, t.t)
            st.ghost['Gu'] = Store(st.ghost['Gu'], pos, t.us)

        def snapshot(ex, st, s):
            st.ghost['t_before'] = st.env['t']

        spec = LoopSpec('dt_bump.While0', inv, variant=lambda st: ntok - st.env['bump'].pos, ghost_havoc=ghost_havoc, keep=('bmp',))
        first_stmt = while0.body[0]
        hooks = [(lambda s: s is first_stmt, snapshot), (lambda s: s is region, after_region)]
        ex = Exec(m, theories, loops={id(while0): spec}, inline=inline, hooks=hooks, name='dt_bump.compound')
        st = State(env={'t': DT(o, us), 'bump': toks.tenor(ntok, 0, 0)})
        st.pc += in_domain(o, us, n) + [ntok >= 1]
        st.ghost['Go'] = Store(Array('Go0', IntSort(), IntSort()), 0, o)
        st.ghost['Gu'] = Store(Array('Gu0', IntSort(), IntSort()), 0, us)
        outs = ex.run_block(st, forloop.body)
        ctx.absorb(ex); ctx.record_function(m, 'dt_bump', fn, ex.stmts_executed)
        nexit = 0
        for out in outs:
            if out.kind == 'raise' and out.val in ('ValueError', 'OverflowError'):
                # token-level range errors are decided in section 1 under the domain precondition
                continue
            if out.kind != 'next':
                ctx.post('dt_bump.compound.no_early_exit', out.st.pc, BoolVal(False), kind='safety')
                continue
            nexit += 1
            s2 = out.st
            t = s2.env['t']; Go, Gu = s2.ghost['Go'], s2.ghost['Gu']
            k = Int('k!post')
            ctx.post('dt_bump.compound.all_tokens_consumed', s2.pc, s2.env['bump'].pos == ntok)
            ctx.post('dt_bump.compound.parts_applied_left_to_right', s2.pc,
                     And(t.t == Go[ntok], t.us == Gu[ntok], Go[0] == o, Gu[0] == us,
                         ForAll([k], Implies(And(0 <= k, k < ntok),
                                             And(Go[k + 1] == STEPo(Go[k], Gu[k], toks.tn(k), toks.tu(k)),
                                                 Gu[k + 1] == STEPu(Go[k], Gu[k], toks.tn(k), toks.tu(k)))))))
            ctx.post('dt_bump.compound.single_token_is_one_step', s2.pc + [ntok == 1],
                     And(t.t == STEPo(o, us, toks.tn(0), toks.tu(0)), t.us == STEPu(o, us, toks.tn(0), toks.tu(0))))
        if nexit == 0:
            raise OutOfSubset('token loop has no normal exit')
        ctx.cover('dt_bump.compound.three_tokens_reachable', in_domain(o, us, n) + [ntok == 3])

    ctx.guarded('dt_bump.body', body_section)
    ctx.trust('the region summary is a function of (t, token) only: STEP is introduced by its definition instance per iteration')
    ctx.trust('results are assumed to stay inside datetime.MINYEAR..MAXYEAR (|n| <= %d from a start in 1900-2300); OverflowError is not modelled' % NMAX)


def z3_fresh(p):
    from pyvc.sv import fresh_name
    return fresh_name(p)


# ---------------------------------------------------------------------------------------------- replay descriptions
def _tenor(n, u):
    return '%d%s' % (n, u)


def replay_token(u):
    def mk(model):
        return dict(kind='token', ordinal=model.get('o'), us=model.get('us', 0) if u not in 'mqy' else 0, tenor=_tenor(model.get('n', 0), u))
    return mk


def replay_lemma(which, u):
    def mk(model):
        d = dict(kind='lemma', which=which, unit=u)
        d.update({k: v for k, v in model.items()})
        return d
    return mk


def replay_scalar(which):
    def mk(model):
        d = dict(kind=which)
        d.update(model)
        return d
    return mk


def replay_named(nm):
    def mk(model):
        return dict(kind='token', ordinal=model.get('o'), us=model.get('us', 0), tenor=nm)
    return mk
