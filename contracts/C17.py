"""C17 - bitemporal store: reading as of T sees exactly what had been published by T.

What sort_values / groupby / apply / drop_duplicates / ffill compute is pandas' business (bounded stand-in rac/C17.py).  Under deductive
contract is the pure-Python logic of _bitemporal.py, every pandas / numpy operation being an uninterpreted function of its operands
(pyvc/th_pandas.py):

  _nth            the position read from a group of L >= 1 rows stays in bounds (-L <= p < L) and is the n-th row when it exists, the last
                  row for n >= L, the first for n < -L (arithmetic on the real clamp expressions, for all n and L)
  _as_what        an integer selects partial(_nth, n = what), anything else is passed through
  bi_read         non-bitemporal input / what == 'all' pass through; the as-of filter keeps rows with stamp <= asof (not <) and is applied
                  *before* the per-date selection: the frame that is sorted by stamp (stably: rows sharing a stamp stay in merge order), grouped by date and reduced with _as_what(what) is
                  the filtered one; an empty filtered frame is returned as it is
  _drop_repeats   repeats are detected between each row and its *immediate predecessor* (rows [1:] against rows [:-1] of the forward-filled
                  values without the stamp column, all columns equal), the first row always kept, and only *then* rows sharing a stamp are
                  reduced to the last one
  bi_merge        version collection: old versions (ignored / only bitemporal ones / stamped with existing_data) followed by the new ones
                  (stamped with asof unless already bitemporal); it returns before the merge only when there are no versions (None) or one
                  (that version) - no other early exit; the merge itself concatenates all versions, sorts by stamp, groups by date, applies
                  _drop_repeats to every group and restores the index name
Assumed: as_list, is_bi, Bi, _add_columns, _set_unique_column, _get_columns by name.  Bounded only: Bi's stamp assignment, the column
harmonisation of bi_merge, the column selection tail of bi_read, bi_asof, everything pandas computes.
"""
import ast
import z3
from z3 import And, Or, Not, If, Implies, Int, IntVal, BoolVal, Const, Select, Lambda

from pyvc.front import select, SelectorError, OutOfSubset, walk_no_defs
from pyvc.symex import Exec, State
from pyvc.theories import TypePreds, ConcreteStr, Globals
from pyvc.sv import SV, I, B, S, T, NONE, fresh_name
from pyvc import th_pandas as tp
from pyvc.th_pandas import (Pandas, PV, PArr, NONEPV, P, F, M, A, R, UN, CMP, GETITEM, SETITEM, SETATTR, SLICE, TRUTH, LEN, ITEM, MKLIST, INTV, BOOLV, STR, GLOBAL,
                            base_facts, run_def, as_list_of, seq_of, mapped, concat, comp_of_source, fresh_plist, plist, at as lat)

PROP = 'C17'
REPLAY_MODULE = 'rac.C17_ded'


def build(ctx):
    m = ctx.mod('_bitemporal')
    # replays are fixed native batteries per obligation family (the counterexamples are interpretations of uninterpreted pandas operations)
    ctx.default_meta = dict(replay_without_model=True)
    bf = base_facts
    w0 = dict(k=IntVal(0))
    GLOB = ['_updated', '_series', '_columns', '_nth']

    def theories(**kw):
        th = Pandas(m, **kw)
        return th, [th, Globals(m, GLOB), ConcreteStr(m), TypePreds()]

    upd = m.global_assign('_updated')
    if not (isinstance(upd, ast.Constant) and isinstance(upd.value, str)):
        raise SelectorError('_updated is not a string literal')
    UPD = upd.value

    # =========================================================================================== _nth / _as_what
    def nth_section():
        node = m.global_assign('_nth')
        if not isinstance(node, ast.Lambda):
            raise SelectorError('_nth is not a lambda')
        V = Const('GROUP', PV)
        n, L = Int('N'), LEN(V)
        rp = replay_of('nth')
        th, ths = theories()
        ex = Exec(m, ths, name='_nth')
        st = State(); st.pc += [L >= 1]
        fn = ex.eval(State(), node)
        s2 = st.fork(); s2.pending = []
        v = ex.call_func(s2, fn, [P(V), I(n)], {})
        ctx.absorb(ex)
        ctx.functions['_bitemporal:_nth'] = dict(file=m.lines(node), source_sha256=m.node_sha(node), statements=1, statements_executed=1, excluded=[], how='symbolic execution of the lambda')
        reads = [e for e in th.events if e['kind'] == 'getitem' and e['idx'].kind == 'int']
        ctx.post('_nth.reads_one_row_by_position_on_each_branch', [], BoolVal(len(reads) == 2 and v.kind == 'pv'), kind='syntactic')
        w = dict(n=n, rows=L)
        for e in reads:
            hy = ex.facts + bf() + e['pc']
            p = e['idx'].t
            ctx.post('_nth.position_stays_in_bounds_for_a_non_empty_group', hy, And(-L <= p, p < L), kind='safety', replay=rp, witness=w)
            pos = If(p < 0, p + L, p)
            ctx.post('_nth.reads_through_iloc_of_the_group', hy, e['recv'].t == A('iloc', V), replay=rp, witness=w)
            ctx.post('_nth.nth_row_when_it_exists_else_the_last', hy + [n >= 0], pos == If(n < L, n, L - 1), replay=rp, witness=w)
            ctx.post('_nth.counted_from_the_end_when_negative_else_the_first', hy + [n < 0], pos == If(-n <= L, L + n, 0), replay=rp, witness=w)
        for pend in s2.pending:
            ctx.post('_nth.never_raises_for_a_non_empty_group', ex.facts + bf() + pend.st.pc, BoolVal(False), kind='safety', replay=rp, witness=w)
        if v.kind == 'pv':
            ctx.post('_nth.returns_the_row_read', ex.facts + bf() + s2.pc,
                     v.t == GETITEM(A('iloc', V), INTV(If(n >= 0, If(n < L - 1, n, L - 1), If(n > -L, n, -L)))), replay=rp, witness=w)
        ctx.cover('_nth.beyond_the_last_reachable', [L == 2, n == 5])
        # _as_what
        fdef = m.func('_as_what')
        W = Int('WHAT_INT')
        th, ths = theories()
        ex = Exec(m, ths, name='_as_what')
        outs = run_def(ex, State(), fdef, [I(W)])
        ctx.absorb(ex); ctx.record_function(m, '_as_what', fdef, ex.stmts_executed)
        for o in outs:
            hy = ex.facts + bf() + o.st.pc
            v = o.val if o.kind == 'return' else None
            ok = v is not None and v.kind == 'func' and v.f.get('partial_of') is not None and v.f['partial_of'].f.get('node') is not None \
                and ast.dump(v.f['partial_of'].f['node']) == ast.dump(node) and not v.f['pargs'] and sorted(v.f['pkw']) == ['n'] and v.f['pkw']['n'].kind == 'int'
            ctx.post('_as_what.an_integer_selects_the_nth_row_with_that_n', hy, v.f['pkw']['n'].t == W if ok else BoolVal(False), replay=rp, witness=dict(n=W))
        WH = Const('WHAT', PV)
        th, ths = theories()
        ex = Exec(m, ths, name='_as_what.other')
        st = State(); st.pc += [Not(TRUTH(F('is_int', WH)))]
        outs = run_def(ex, st, fdef, [P(WH)])
        ctx.absorb(ex)
        for o in outs:
            hy = ex.facts + bf() + o.st.pc
            ctx.post('_as_what.anything_else_is_passed_through', hy, o.val.t == WH if o.kind == 'return' and o.val.kind == 'pv' else BoolVal(False), replay=rp, witness=w0)
    ctx.guarded('_nth', nth_section)

    # =========================================================================================== bi_read
    DF, ASOF, WHAT = Const('DF', PV), Const('ASOF', PV), Const('WHAT', PV)

    def bi_read_section():
        fdef = m.func('bi_read')
        rp = replay_of('bi_read')
        body = [s for s in fdef.body if not (isinstance(s, ast.Expr) and isinstance(s.value, ast.Constant))]
        # the prefix ends with the statement that performs the per-date selection: the first `if` with an else branch
        cut = [k for k, s in enumerate(body) if isinstance(s, ast.If) and s.orelse and not any(isinstance(x, ast.Return) for x in ast.walk(s))]
        if not cut:
            raise SelectorError('bi_read: no `if len(df): ... else: ...` selection statement')
        prefix = body[:cut[0] + 1]
        th, ths = theories()
        ex = Exec(m, ths, name='bi_read')
        env = ex.bind(fdef, [P(DF), P(ASOF), P(WHAT)], {})
        st = State(env=env)
        ex._resolve_defaults(st, env)
        outs = ex.run_block(st, prefix)
        ctx.absorb(ex)
        ctx.record_function(m, 'bi_read', fdef, ex.stmts_executed, excluded=['column selection / renaming tail after the per-date selection: bounded only'])
        passthru = Or(Not(TRUTH(R('is_bi', DF))), WHAT == STR('all'))
        stamp = lambda d: GETITEM(d, UPD)
        d1 = If(TRUTH(F('is_date', ASOF)), GETITEM(DF, CMP('LtE', stamp(DF), ASOF)), DF)
        d2 = If(TRUTH(R('is_bi', ASOF)), GETITEM(d1, CMP('LtE', stamp(d1), GETITEM(M('reindex', ASOF, A('index', d1)), UPD))), d1)
        named = If(A('name', A('index', d2)) == NONEPV, SETATTR('index', d2, SETATTR('name', A('index', d2), 'index')), d2)
        selected = M('apply', M('groupby', M('sort_values', named, UPD, kind='stable'), A('name', A('index', named))), R('_as_what', WHAT))
        want = If(LEN(d2) != 0, selected, d2)
        n = 0
        for o in outs:
            hy = ex.facts + bf() + o.st.pc
            if o.kind == 'raise':
                ctx.post('bi_read.never_raises', hy, BoolVal(False), kind='safety', replay=rp, witness=w0)
            elif o.kind == 'return':
                ctx.post('bi_read.only_non_bitemporal_input_or_what_all_pass_through', hy, And(passthru, tp.sv_pv(o.val) == DF) if th.convertible(o.val) else BoolVal(False),
                         replay=rp, witness=w0)
            else:
                n += 1
                r = o.st.env.get('res')
                ctx.post('bi_read.bitemporal_input_is_read', hy, Not(passthru), replay=rp, witness=w0)
                ctx.post('bi_read.asof_filter_keeps_stamps_le_asof_and_precedes_the_per_date_selection', hy,
                         r.t == want if r is not None and r.kind == 'pv' else BoolVal(False), replay=rp, witness=w0)
        if n == 0:
            raise OutOfSubset('bi_read: no path reaches the per-date selection')
        ctx.cover('bi_read.filtered_read_reachable', bf() + [Not(passthru), TRUTH(F('is_date', ASOF)), LEN(d2) != 0])
    ctx.guarded('bi_read', bi_read_section)

    # =========================================================================================== _drop_repeats
    def drop_repeats_section():
        fdef = m.func('_drop_repeats')
        rp = replay_of('drop_repeats')
        Dd = Const('D', PV)
        th, ths = theories()
        ex = Exec(m, ths, name='_drop_repeats')
        outs = run_def(ex, State(), fdef, [P(Dd)])
        ctx.absorb(ex); ctx.record_function(m, '_drop_repeats', fdef, ex.stmts_executed)
        nu = M('ffill', M('drop', Dd, columns=UPD))
        old = A('values', GETITEM(A('iloc', nu), SLICE(None, -1, None)))
        new = A('values', GETITEM(A('iloc', nu), SLICE(1, None, None)))
        rep = M('min', CMP('Eq', new, old), axis=1)
        kept = GETITEM(Dd, UN('Invert', F('np.concatenate', [[False], rep])))
        want = M('drop_duplicates', kept, subset=[UPD], keep='last')
        for o in outs:
            hy = ex.facts + bf() + o.st.pc
            ctx.post('_drop_repeats.repeats_of_the_immediate_predecessor_are_dropped_first_then_same_stamp_rows_keep_the_last', hy,
                     tp.sv_pv(o.val) == want if o.kind == 'return' and th.convertible(o.val) else BoolVal(False), replay=rp, witness=w0)
    ctx.guarded('_drop_repeats', drop_repeats_section)

    # =========================================================================================== bi_merge
    OLD, NEW, EXD = Const('OLD_DATA', PV), Const('NEW_DATA', PV), Const('EXISTING_DATA', PV)

    def bi_merge_section():
        fdef = m.func('bi_merge')
        rp = replay_of('bi_merge')
        body = [s for s in fdef.body if not (isinstance(s, ast.Expr) and isinstance(s.value, ast.Constant))]
        guards = [k for k, s in enumerate(body) if isinstance(s, ast.If) and len(s.body) == 1 and isinstance(s.body[0], ast.Return) and not s.orelse]
        if len(guards) < 2:
            raise SelectorError('bi_merge: expected the two guarded returns for zero / one version')
        region_a = body[:guards[-1] + 1]
        # the name of the version list: what the guards measure
        lens = [x for x in ast.walk(body[guards[-1]].test) if isinstance(x, ast.Call) and ast.unparse(x.func) == 'len' and isinstance(x.args[0], ast.Name)]
        if not lens:
            raise SelectorError('bi_merge: guards do not test len(<list>)')
        bname = lens[0].args[0].id
        th, ths = theories()
        ex = Exec(m, ths, name='bi_merge.versions')
        env = ex.bind(fdef, [P(OLD), P(NEW), P(ASOF), P(EXD)], {})
        st = State(env=env)
        ex._resolve_defaults(st, env)
        outs = ex.run_block(st, region_a)
        ctx.absorb(ex)
        ctx.record_function(m, 'bi_merge', fdef, ex.stmts_executed, excluded=['column harmonisation (_add_columns / _set_unique_column decision): bounded only'])
        aold, anew = as_list_of(OLD), as_list_of(NEW)
        ignore = Or(EXD == STR('ignore'), EXD == STR('overwrite'))
        onlybi = Not(TRUTH(EXD))
        filt = comp_of_source('[b for b in as_list(old_data) if is_bi(b)]', tp.sv_pv(aold), {})
        stamp = lambda b, with_: If(TRUTH(R('is_bi', b)), b, R('Bi', b, with_))
        old_n = If(ignore, 0, If(onlybi, LEN(filt), aold.n))
        old_at = lambda q: If(onlybi, ITEM(filt, q), stamp(lat(aold, q), EXD))
        new_n = anew.n
        new_at = lambda q: stamp(lat(anew, q), ASOF)
        total = old_n + new_n
        ver = lambda q: If(q < old_n, old_at(q), new_at(q - old_n))
        q = Int('Q')
        w = dict(old=old_n, new=new_n)
        n = 0
        for o in outs:
            hy = ex.facts + bf() + o.st.pc + [LEN(filt) >= 0]
            if o.kind == 'raise':
                ctx.post('bi_merge.versions.never_raises', hy, BoolVal(False), kind='safety', replay=rp, witness=w)
            elif o.kind == 'return':
                if o.val.kind == 'none':
                    ctx.post('bi_merge.returns_None_only_without_any_version', hy, total == 0, replay=rp, witness=w)
                elif th.convertible(o.val):
                    ctx.post('bi_merge.returns_before_the_merge_only_with_a_single_version_and_returns_that_version', hy,
                             And(total == 1, th.to_pv(ex, o.st, o.val) == ver(IntVal(0))), replay=rp, witness=w)
                else:
                    ctx.post('bi_merge.early_return_value', hy, BoolVal(False), replay=rp, witness=w)
            else:
                n += 1
                bis = o.st.env.get(bname)
                ctx.post('bi_merge.two_or_more_versions_reach_the_merge', hy, total >= 2, replay=rp, witness=w)
                if bis is None or bis.kind not in ('plist', 'lazylist'):
                    ctx.post('bi_merge.versions_are_a_list', hy, BoolVal(False), replay=rp, witness=w)
                    continue
                bl = th.as_plist(ex, o.st, bis)
                ctx.post('bi_merge.versions_are_the_old_ones_followed_by_the_new_ones_each_stamped_unless_bitemporal', hy + [0 <= q, q < total],
                         And(bl.n == total, lat(bl, q) == ver(q)), replay=rp, witness=dict(q=q, old=old_n, new=new_n))
        if n == 0:
            raise OutOfSubset('bi_merge: no path reaches the merge')
        ctx.cover('bi_merge.one_old_one_new_reachable', bf() + [Not(ignore), Not(onlybi), aold.n == 1, anew.n == 1])

        # ---- the merge tail: from the concatenation of the version list to the end
        tail_from = [k for k, s in enumerate(body) if k > guards[-1] and isinstance(s, ast.Assign) and isinstance(s.value, ast.Call)
                     and ast.unparse(s.value.func) == 'pd.concat' and len(s.value.args) == 1 and isinstance(s.value.args[0], ast.Name) and s.value.args[0].id == bname]
        if not tail_from:
            raise SelectorError('bi_merge: no `df = pd.concat(%s)`' % bname)
        region_c = body[tail_from[0]:]
        BIS = fresh_plist('VERSIONS')
        th, ths = theories()
        ex = Exec(m, ths, name='bi_merge.merge')
        st = State(env={bname: BIS})
        st.pc += [BIS.n >= 2]
        outs = ex.run_block(st, region_c)
        ctx.absorb(ex); ctx.record_function(m, 'bi_merge', fdef, ex.stmts_executed)
        df0 = F('pd.concat', tp.sv_pv(BIS))
        nm = A('name', A('index', df0))
        df1 = If(nm == NONEPV, SETATTR('index', df0, SETATTR('name', A('index', df0), 'index')), df0)
        gb = M('groupby', M('sort_values', df1, UPD, kind='stable'), A('name', A('index', df1)))
        res0 = F('pd.concat', tp.sv_pv(mapped(seq_of(gb), lambda it: R('_drop_repeats', ITEM(it, IntVal(1))))))
        want = SETATTR('index', res0, SETATTR('name', A('index', res0), nm))
        nret = 0
        for o in outs:
            hy = ex.facts + bf() + o.st.pc
            if o.kind != 'return':
                ctx.post('bi_merge.merge.returns_normally', hy, BoolVal(False), kind='safety', replay=rp, witness=w0)
                continue
            nret += 1
            ctx.post('bi_merge.merge.all_versions_sorted_by_stamp_grouped_by_date_each_group_through__drop_repeats_index_name_restored', hy,
                     th.to_pv(ex, o.st, o.val) == want if th.convertible(o.val) else BoolVal(False), replay=rp, witness=w0)
        if nret == 0:
            raise OutOfSubset('bi_merge: the merge tail does not return')
    ctx.guarded('bi_merge', bi_merge_section)

    ctx.trust('pandas semantics (boolean row selection, sort_values, groupby / apply, ffill, drop_duplicates, concat) are uninterpreted here and decided by the '
              'bounded stand-in rac/C17.py only; that "<= asof before selection" yields no look-ahead is an argument from these obligations, not a solver step')


def replay_of(kind, **kw):
    def mk(model):
        return dict(kind=kind, model=dict(model), **kw)
    return mk
