#!/usr/bin/env python3
"""setup_cmd: nothing is built; verify that the interpreters, solvers and the repository are where the checks expect them."""
import os, sys, subprocess
ok = True
def need(cond, what):
    global ok
    print(('ok   ' if cond else 'MISSING ') + what)
    ok = ok and cond
try:
    import z3
    need(True, 'z3 python API ' + z3.get_version_string())
except Exception as e:
    need(False, 'z3 python API (%s)' % e)
need(os.path.exists('/venv/bin/python'), '/venv/bin/python (replay and bounded runner)')
need(os.path.isdir(os.environ.get('PYG_REPO', '/repo') + '/src/pyg_base'), 'repository sources')
print('optional: cvc5 %s, z3-4.8 %s' % (os.path.exists('/usr/bin/cvc5'), os.path.exists('/usr/bin/z3')))
r = subprocess.run(['/venv/bin/python', '-c', 'import sys; sys.path.insert(0, "%s/src"); import pyg_base' % os.environ.get('PYG_REPO', '/repo')], capture_output=True, text=True)
need(r.returncode == 0, 'pyg_base importable under /venv/bin/python ' + r.stderr[-200:])
os.makedirs(os.path.join(os.path.dirname(os.path.dirname(os.path.abspath(__file__))), 'replays'), exist_ok=True)
sys.exit(0 if ok else 1)
