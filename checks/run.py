#!/usr/bin/env python3
"""Driver: python3-vt checks/run.py check <id> [--tier quick|thorough]
           python3-vt checks/run.py replay <file>
           python3-vt checks/run.py lock <id>|all      (deliberate regeneration of obligations.lock.json)

Exit codes: 0 property held on everything explored (known findings are printed as KNOWN-FINDING lines);
            1 violation (a line `VIOLATION property=<id> replay=<path>` is printed);
            2 undecided (solver unknown, selector no longer matches, construct outside the verified subset);
            3 checker failure (crash, zero obligations, vacuous precondition).
"""
import sys, os, json, time, argparse, subprocess, importlib, traceback, hashlib, re

HERE = os.path.dirname(os.path.abspath(__file__))
ROOT = os.path.dirname(HERE)
sys.path.insert(0, ROOT)
os.chdir(ROOT)

VENV_PY = os.environ.get('PYG_VENV_PY', '/venv/bin/python')
REPO = os.environ.get('PYG_REPO', '/repo')
LOCKDIR = os.path.join(ROOT, 'locks')
KNOWN = os.path.join(ROOT, 'known_findings.txt')

from checks.props import PROPS   # noqa


def load_known():
    findings, fixed = {}, []
    if os.path.exists(KNOWN):
        for line in open(KNOWN):
            line = line.strip()
            if line.startswith('finding:'):
                m = re.match(r'finding:\s+property=(\S+)\s+key=(\S+)\s+(.*)', line)
                if m:
                    findings[(m.group(1), m.group(2))] = m.group(3)
            elif line.startswith('fixed:'):
                fixed.append(line)
    return findings, fixed


def load_lock(prop):
    """names of the obligations discharged on the baseline tree (committed; regenerated only deliberately with `lock`)"""
    p = os.path.join(LOCKDIR, prop + '.json')
    return json.load(open(p)) if os.path.exists(p) else []


def base_name(n):
    return n.split('#')[0]


def run_rac(prop, tier, seed, timeout):
    """bounded stand-in: same contracts evaluated at run time around the real functions, under /venv/bin/python"""
    out = os.path.join(ROOT, 'evidence', '.rac_%s_%d.json' % (prop, os.getpid()))      # per process: checks of one property may run side by side
    if os.path.exists(out):
        os.unlink(out)
    env = dict(os.environ, PYTHONPATH=os.path.join(REPO, 'src') + os.pathsep + ROOT, PYG_BASE_VERIF='1', PYTHONDONTWRITEBYTECODE='1')
    cmd = [VENV_PY, os.path.join(ROOT, 'rac', 'run.py'), 'run', prop, '--tier', tier, '--seed', str(seed), '--out', out]
    try:
        p = subprocess.run(cmd, capture_output=True, text=True, timeout=timeout, env=env, cwd=ROOT)
    except subprocess.TimeoutExpired:
        return dict(status='timeout', detail='bounded runner exceeded %ds' % timeout)
    if not os.path.exists(out):
        return dict(status='crash', detail=(p.stdout[-1500:] + p.stderr[-3000:]))
    r = json.load(open(out))
    os.unlink(out)
    r['status'] = 'ok'
    return r


# properties whose contracts speak about uninterpreted pandas operations (pyvc/th_pandas.py): equal results can be different terms
ABSTRACT_MODEL = {'C03', 'C08', 'C12', 'C13', 'C17'}


def tree_digest():
    """sha256 per source file of the tree under test"""
    import hashlib, glob
    out = {}
    for f in sorted(glob.glob(os.path.join(REPO, 'src', 'pyg_base', '*.py'))):
        out[os.path.basename(f)] = hashlib.sha256(open(f, 'rb').read()).hexdigest()
    return out


def tree_is_baseline():
    """is the tree under test the one the lock files were written for?  On that tree an undecided obligation means the checker itself is
    not working and the check must not pass; on any other tree it means this change took the code out of what the contracts can decide,
    which is reported (UNDECIDED lines, evidence) but is not an alarm"""
    try:
        return json.load(open(os.path.join(LOCKDIR, 'tree.json'))) == tree_digest()
    except (OSError, ValueError):
        return True


def run_replay(path, timeout=120):
    env = dict(os.environ, PYTHONPATH=os.path.join(REPO, 'src') + os.pathsep + ROOT, PYG_BASE_VERIF='1', PYTHONDONTWRITEBYTECODE='1')
    cmd = [VENV_PY, os.path.join(ROOT, 'rac', 'run.py'), 'replay', path]
    try:
        p = subprocess.run(cmd, capture_output=True, text=True, timeout=timeout, env=env, cwd=ROOT)
    except subprocess.TimeoutExpired:
        return dict(fails=True, detail='the real code did not return within %ds (non-termination)' % timeout, hang=True)
    try:
        return json.loads(p.stdout.strip().splitlines()[-1])
    except Exception:
        return dict(fails=None, detail='replay runner produced no verdict: ' + (p.stdout[-500:] + p.stderr[-1500:]))


def write_replay(prop, key, payload):
    os.makedirs(os.path.join(ROOT, 'replays'), exist_ok=True)
    safe = re.sub(r'[^A-Za-z0-9_.#-]', '_', key)[:150]
    path = os.path.join(ROOT, 'replays', '%s_%s.json' % (prop, safe))
    json.dump(payload, open(path, 'w'), indent=1, default=str)
    return path


def deductive(prop, tier, seed, findings):
    """returns dict with obligations / results / undecided / etc.; never raises for selector/subset problems"""
    from pyvc import front, solve
    from pyvc.contract import Ctx
    front.reset()
    info = dict(present=False)
    modname = 'contracts.%s' % prop
    if not os.path.exists(os.path.join(ROOT, 'contracts', prop + '.py')):
        return info
    info['present'] = True
    mod = importlib.import_module(modname)
    ctx = Ctx(prop, tier, seed)
    t0 = time.time()
    try:
        mod.build(ctx)
    except (front.SelectorError, front.OutOfSubset) as e:
        ctx.undecided.append(('build', '%s: %s' % (type(e).__name__, e)))
    except (KeyError, AttributeError, IndexError, TypeError, ValueError) as e:
        ctx.undecided.append(('build', 'contract no longer matches the code (%s: %s)' % (type(e).__name__, str(e)[:160])))
    # callee contracts this property takes from other properties: the sections of those contracts that verify the callee bodies are generated
    # again here (modular verification: the property holds only if the callees still meet the contracts it was proved against)
    from checks.depends import DEPENDS
    for dep, labels in DEPENDS.get(prop, []):
        try:
            dmod = importlib.import_module('contracts.%s' % dep)
            dctx = Ctx(dep, tier, seed)
            dctx.only = labels
            dmod.build(dctx)
        except (front.SelectorError, front.OutOfSubset) as e:
            ctx.undecided.append(('dependency %s' % dep, '%s: %s' % (type(e).__name__, e)))
            continue
        except (KeyError, AttributeError, IndexError, TypeError, ValueError) as e:
            ctx.undecided.append(('dependency %s' % dep, 'contract no longer matches the code (%s: %s)' % (type(e).__name__, str(e)[:160])))
            continue
        for ob in dctx.obligations:
            ob.meta['replay_module'] = getattr(dmod, 'REPLAY_MODULE', None) or 'rac.%s' % dep
            ob.meta['dependency'] = dep
            ctx.obligations.append(ob)
        ctx.covers += dctx.covers
        ctx.trusted |= dctx.trusted
        ctx.frame_results += dctx.frame_results
        for k, v in dctx.functions.items():
            v = dict(v, how='%s; callee contract of %s, sections %s' % (v.get('how', ''), dep, ', '.join(labels)))
            ctx.functions.setdefault(k, v)
        for label, reason in dctx.undecided:
            ctx.undecided.append(('%s (callee contracts from %s)' % (label, dep), reason))
    # frame contracts of the property's public functions (modifies nothing / top(self)); contracts with their own frame section have no entry
    from pyvc import own_public
    ctx.guarded('frame.public', lambda: own_public.section(ctx, prop))
    info['gen_s'] = time.time() - t0
    # known-finding carve-outs: expected to stay sat while the finding is listed; otherwise ordinary obligations
    expected = []
    for ob in ctx.expected_sat:
        if (prop, ob.meta.get('key')) in findings:
            expected.append(ob)
        else:
            ctx.obligations.append(ob)
    t0 = time.time()
    results = solve.discharge(ctx.obligations, tier=tier, seed=seed)
    exp_results = solve.discharge(expected, tier=tier, seed=seed) if expected else []
    covers = solve.check_sat(ctx.covers)
    second = {}
    if tier == 'thorough':
        second = solve.second_backend(results)
    info.update(ctx=ctx, results=results, exp_results=exp_results, covers=covers, second=second, solve_s=time.time() - t0, module=mod)
    return info


def check(prop, tier, seed):
    t_start = time.time()
    meta = PROPS[prop]
    findings, fixed = load_known()
    lock = load_lock(prop)
    lines, violations, known_hits, undecided, crash = [], [], [], [], []
    ded = {}
    try:
        ded = deductive(prop, tier, seed, findings)
    except Exception:
        crash.append('deductive part crashed:\n' + traceback.format_exc())
        ded = dict(present=True, failed=True)
    obligations_ev, n_obl, n_dis = [], 0, 0
    trusted, functions, frame = [], {}, []
    solver_s = 0.0
    if ded.get('present') and not ded.get('failed'):
        ctx = ded['ctx']
        trusted = sorted(ctx.trusted)
        functions = ctx.functions
        frame = ctx.frame_results
        for label, reason in ctx.undecided:
            undecided.append('%s: %s' % (label, reason))
        names_now = set()
        # sections in which an obligation that guards the verified subset fails: the rest of that section speaks about code outside the model
        tainted = {r.ob.meta.get('section') for r in ded['results'] if r.status != 'unsat' and r.ob.meta.get('subset_guard')} - {None}
        for r in ded['results']:
            n_obl += 1
            names_now.add(base_name(r.name))
            solver_s += r.secs
            ev = dict(name=r.name, kind=r.ob.kind, status=r.status, backend=r.backend, solver_s=round(r.secs, 3))
            if r.name in ded['second']:
                ev['second_backend'] = list(ded['second'][r.name][:2])
            obligations_ev.append(ev)
            if r.status == 'unsat':
                n_dis += 1
                continue
            cand_models = None
            if r.status in ('unknown', 'error'):
                # counterexample search by finite instantiation of the quantified hypotheses; a model found this way is only a
                # candidate and is reported only if it fails on the real code
                from pyvc import finite
                if r.ob.meta.get('replay') is None:
                    undecided.append('%s: solver %s (%s)' % (r.name, r.status, r.reason[:120]))
                    continue
                hints = r.ob.meta.get('search_hints') or []
                ob2 = type(r.ob)(r.ob.name, list(r.ob.hyps) + list(hints), r.ob.goal, r.ob.kind, meta=r.ob.meta, witness=r.ob.witness)
                cand_models = finite.candidates(ob2, tier)
            # sat: a named obligation fails
            key = base_name(r.name)
            mk = r.ob.meta.get('replay')
            candidate = cand_models is not None
            tries = cand_models if candidate else [(r.model, None)]
            verdict, path, payload = dict(fails=None, detail='no replay input for this obligation'), None, None
            for model, note in tries:
                call = None
                # meta replay_without_model: the obligation's replay is a fixed native battery of its clause and needs no model values
                # (counterexamples over uninterpreted operations, or a sat verdict from a back end that returns no witness values)
                if mk is not None and (model or r.ob.meta.get('replay_without_model')):
                    try:
                        call = mk(model or {})
                    except Exception as e:          # noqa
                        call = None
                payload = dict(property=prop, obligation=r.name, kind=r.ob.kind, model=model, call=call,
                               solver_output=('candidate model by %s after solver %s (%s)' % (note, r.status, r.reason[:100])) if candidate
                               else 'sat (%s, %.2fs)' % (r.backend, r.secs),
                               goal=str(r.ob.goal)[:2000], replay_module=r.ob.meta.get('replay_module') or getattr(ded.get('module'), 'REPLAY_MODULE', None))
                path = write_replay(prop, key, payload)
                verdict = dict(fails=None, detail='no replay input for this obligation')
                if call is not None:
                    verdict = run_replay(path)
                payload['replay_verdict'] = verdict
                json.dump(payload, open(path, 'w'), indent=1, default=str)
                if verdict.get('fails') is True:
                    break
            if candidate and path is None:
                undecided.append('%s: solver %s (%s); finite instantiation found no candidate' % (r.name, r.status, r.reason[:100]))
                continue
            if (prop, key) in findings:
                known_hits.append((key, findings[(prop, key)]))
                continue
            in_lock = key in lock
            if verdict.get('fails') is True:
                violations.append((key, path, '', verdict.get('detail', '')))
            elif candidate:
                undecided.append('%s: solver %s; the candidate counterexample found by finite instantiation passes on the real code' % (r.name, r.status))
            elif r.ob.meta.get('conservative'):
                undecided.append('%s: the ownership analysis cannot show this site writes fresh objects only (conservative analysis), and the native probe found no effect: %s' % (
                    r.name, str(verdict.get('detail', ''))[:160]))
            elif verdict.get('fails') is False and (prop in ABSTRACT_MODEL or r.ob.meta.get('abstract_model') or r.ob.meta.get('subset_guard') or r.ob.meta.get('section') in tainted):
                # the obligation fails in the encoding, but its counterexample - concretised, or the native battery of this clause - holds on the real
                # code, AND the encoding is an abstraction here: the contract speaks about uninterpreted pandas operations (a refactoring builds a
                # different but equal term), or the obligation guards the verified subset (what follows it on that path is not modelled).  The model is
                # an artefact of the abstraction, not a failing input.  Reported, not an alarm.  (Over the exact theories - integers, dates, value
                # universes, lists, maps - a failing obligation that was discharged on the baseline is reported even without a native witness.)
                undecided.append('%s: fails in the encoding, but no counterexample reproduces on the real code (%s)' % (r.name, str(verdict.get('detail', ''))[:140]))
            elif in_lock:
                violations.append((key, path, ' no-failing-input-found', verdict.get('detail', '')))
            else:
                undecided.append('%s: sat but not discharged on the baseline either and no failing input on the real code' % r.name)
        for r in ded['exp_results']:
            key = r.ob.meta.get('key')
            if r.status == 'sat':
                known_hits.append((key, findings.get((prop, key), '')))
            elif r.status == 'unsat':
                lines.append('NOTE: known finding %s no longer reproduces (obligation %s now verifies); update known_findings.txt' % (key, r.name))
            else:
                undecided.append('%s: solver %s on a known-finding obligation' % (r.name, r.status))
        for name, (status, secs) in ded['covers'].items():
            if status == 'unsat':
                crash.append('vacuity guard failed: %s is unsatisfiable' % name)
            elif status != 'sat':
                undecided.append('%s: cover %s' % (name, status))
        missing = sorted(set(lock) - names_now)
        if missing and not undecided:
            undecided.append('obligations in the lock file were not generated: %s' % ', '.join(missing[:8]))
        if n_obl == 0 and not undecided:
            crash.append('zero obligations generated')
    # ---------------- bounded stand-in
    rac = None
    if meta.get('rac') and not os.environ.get('PYVC_NO_RAC'):
        rac = run_rac(prop, tier, seed, timeout=meta.get('rac_timeout', {}).get(tier, 420 if tier == 'quick' else 5400))
        if rac['status'] != 'ok':
            crash.append('bounded runner %s: %s' % (rac['status'], rac.get('detail', '')[-2000:]))
        else:
            for v in rac.get('violations', []):
                key = v['key']
                if (prop, key) in findings:
                    if (key, findings[(prop, key)]) not in known_hits:
                        known_hits.append((key, findings[(prop, key)]))
                    continue
                path = write_replay(prop, key, dict(property=prop, obligation='bounded:' + key, call=v.get('call'), detail=v.get('what'),
                                                    solver_output='run-time contract check (bounded)'))
                violations.append((key, path, '', v.get('what', '')))
    # ---------------- the deductive part left something undecided: explore further with the bounded part (two more seeds) so that what the
    # contracts could not decide is at least looked at harder
    escalated = []
    if undecided and rac and rac.get('status') == 'ok' and not violations and not crash and tier == 'quick' and not os.environ.get('PYVC_NO_ESCALATE'):
        for extra in (seed + 101, seed + 202):
            r2 = run_rac(prop, tier, extra, timeout=meta.get('rac_timeout', {}).get(tier, 420))
            escalated.append(dict(seed=extra, status=r2.get('status'), evaluations=r2.get('evaluations')))
            if r2.get('status') != 'ok':
                continue
            rac['evaluations'] = rac.get('evaluations', 0) + r2.get('evaluations', 0)
            for v in r2.get('violations', []):
                key = v['key']
                if (prop, key) in findings:
                    continue
                path = write_replay(prop, key, dict(property=prop, obligation='bounded:' + key, call=v.get('call'), detail=v.get('what'),
                                                    solver_output='run-time contract check (bounded, escalation seed %d)' % extra))
                violations.append((key, path, '', v.get('what', '')))
    # ---------------- sensitivity self-test (thorough tier, unchanged tree only): canned mutations must each fail a named obligation
    sensitivity = None
    if tier == 'thorough' and not os.environ.get('PYG_REPO') and not os.environ.get('PYVC_NO_SELFTEST') and ded.get('present'):
        try:
            from tools.mutants import selftest
            sensitivity = selftest(prop, jobs=4)
        except Exception as e:      # noqa
            sensitivity = dict(error=repr(e)[:300])
    # ---------------- verdict
    wall = time.time() - t_start
    seen = set()
    for key, text in known_hits:
        if key not in seen:
            seen.add(key)
            lines.append('KNOWN-FINDING: property=%s %s (%s)' % (prop, key, text))
    vseen = set()
    for key, path, suffix_, detail in violations:
        if key in vseen:
            continue
        vseen.add(key)
        lines.append('VIOLATION property=%s replay=%s%s' % (prop, os.path.relpath(path, ROOT), suffix_))
        lines.append('  obligation/key: %s  %s' % (key, detail[:300].replace('\n', ' ')))
    for u in undecided:
        lines.append('UNDECIDED: ' + u)
    for c in crash:
        lines.append('CHECKER-FAILURE: ' + c)
    level = meta['level']
    coverage = dict(
        obligations=n_obl, discharged=n_dis,
        checker_cmd='python3-vt checks/run.py check %s --tier %s' % (prop, tier),
        trusted_base=trusted,
        explanation=meta.get('explanation', ''),
        functions_under_contract=functions,
        obligation_list=obligations_ev,
        solver_s=round(solver_s, 2),
        frame=frame,
        covers={k: v[0] for k, v in (ded.get('covers') or {}).items()},
        known_findings=[dict(key=k, text=t) for k, t in known_hits],
        undecided=undecided,
        samples=[e['name'] for e in obligations_ev[:5]],
    )
    if sensitivity is not None:
        coverage['sensitivity_selftest'] = sensitivity
    if escalated:
        coverage['escalation'] = escalated
    if rac and rac.get('status') == 'ok':
        coverage['bounded'] = {k: rac.get(k) for k in ('evaluations', 'distinct_nontrivial', 'rule', 'samples', 'exhaustive', 'scope', 'wall_s') if k in rac}
        coverage['evaluations'] = rac.get('evaluations', 0)
        coverage['distinct_nontrivial'] = rac.get('distinct_nontrivial', 0)
        coverage['rule'] = 'bounded stand-in (never counted as proved): ' + str(rac.get('rule', ''))
        if not obligations_ev:
            coverage['samples'] = rac.get('samples', [])[:8]
        else:
            coverage['samples'] = coverage['samples'] + rac.get('samples', [])[:5]
    if level == 'proof' and n_obl == 0:
        level = 'other'
    ev = dict(property_id=prop, tier=tier, seed=seed, level=level, coverage=coverage,
              assumptions=trusted + meta.get('assumptions', []), wall_s=round(wall, 2), violations=len(vseen))
    # runs against a scratch copy (sensitivity self-test, seeded changes) must not overwrite the evidence of the real tree
    evdir = os.path.join(ROOT, 'evidence', '.scratch') if os.environ.get('PYG_REPO') else os.path.join(ROOT, 'evidence')
    os.makedirs(evdir, exist_ok=True)
    json.dump(ev, open(os.path.join(evdir, prop + '.json'), 'w'), indent=1, default=str)
    for l in lines:
        print(l)
    print('%s tier=%s obligations=%d discharged=%d bounded_evaluations=%s wall=%.1fs' % (
        prop, tier, n_obl, n_dis, (rac or {}).get('evaluations'), wall))
    if vseen:
        return 1
    if crash:
        return 3
    if undecided:
        # exit 2 (the check itself is not in working order) only on the tree the lock files were written for, or on request; on a changed tree the
        # UNDECIDED lines and the evidence say what could not be decided, everything that was explored held: exit 0
        if tree_is_baseline() or os.environ.get('PYVC_STRICT'):
            return 2
        print('NOTE: %d obligation(s) / section(s) undecided on a changed tree; nothing explored failed' % len(undecided))
    return 0


def lock_cmd(which):
    findings, _ = load_known()
    props = sorted(PROPS) if which == 'all' else [which]
    os.makedirs(LOCKDIR, exist_ok=True)
    for prop in props:
        ded = deductive(prop, 'quick', 0, findings)
        if not ded.get('present'):
            continue
        names = sorted({base_name(r.name) for r in ded['results'] if r.status == 'unsat'})
        bad = [r.name for r in ded['results'] if r.status != 'unsat']
        json.dump(names, open(os.path.join(LOCKDIR, prop + '.json'), 'w'), indent=1)
        # baseline local names of every function under contract (tolerance to renamed locals, see pyvc/front.py)
        from pyvc import front
        for key in ded['ctx'].functions:
            modname, qual = key.split(':', 1)
            try:
                front.record_names(modname, qual, front.module(modname).func(qual))
            except front.SelectorError:
                pass
        print(prop, len(names), 'obligations locked;', 'NOT discharged: %s' % bad if bad else 'all discharged', ded['ctx'].undecided)
    json.dump(tree_digest(), open(os.path.join(LOCKDIR, 'tree.json'), 'w'), indent=1)


def main():
    ap = argparse.ArgumentParser()
    ap.add_argument('cmd', choices=['check', 'replay', 'lock'])
    ap.add_argument('target')
    ap.add_argument('--tier', default='quick')
    a = ap.parse_args()
    tier = os.environ.get('VERIF_TIER') or a.tier
    if tier not in ('quick', 'thorough'):
        tier = 'quick'
    try:
        seed = int(os.environ.get('VERIF_SEED', '0'))
    except ValueError:
        seed = 0
    if a.cmd == 'check':
        if a.target not in PROPS:
            print('unknown property', a.target)
            return 3
        try:
            return check(a.target, tier, seed)
        except Exception:
            traceback.print_exc()
            return 3
    if a.cmd == 'replay':
        v = run_replay(os.path.abspath(a.target))
        print(json.dumps(v))
        return 1 if v.get('fails') else 0
    if a.cmd == 'lock':
        lock_cmd(a.target)
        return 0


if __name__ == '__main__':
    sys.exit(main())
