"""Which callee contracts a property's proof takes from another property's contract module.

DEPENDS[X] = [(Y, [section labels of contracts/Y.py])]: the check of X generates and discharges those sections of Y as well, so a change inside
a callee that breaks the contract X was proved against fails a named obligation `Y.<...>` in the check of X (with Y's replay).  Only sections
that verify function bodies X actually calls are listed; Y's bounded runner is not run for X."""
LISTS = ['as_list', 'is_iterable', 'len0', 'lens', 'zipper']
CMP = ['axiom validation', 'as_primitive', 'cmp', 'has_nan', 'sort']
# C07's as_primitive section (cmp's normalisation step) takes the loop(list, tuple) decorator from C18's wrapper.__call__ and C19's loops.wrapped / loops._wrapped
# contracts and dt(datetime) from C04
AP_CALLEES = [('C19', ['_wrapped', 'wrapped.positional']), ('C04', ['dt']), ('C18', ['wrapper.__call__'])]
DEPENDS = {
    'C01': [('C19', LISTS)],
    'C02': [('C07', CMP), ('C01', ['__getitem__.tuple', '__getitem__.column', '__getitem__.ints', 'constructor.rows', '__iter__', '__len__'])] + AP_CALLEES,
    'C03': [('C19', ['as_list', '_wrapped', '_item_by'])],
    'C04': [('C19', ['as_list'])],
    'C05': [('C04', ['_ymd', 'dt'])],
    'C06': [('C01', ['constructor', 'dict_concat', '__iter__', '__getitem__.mask', '__len__']), ('C19', LISTS)],
    'C07': [('C19', ['as_list', '_wrapped', 'wrapped.positional']), ('C04', ['dt']), ('C18', ['wrapper.__call__']), ('C01', ['__len__', '__getitem__.tuple', '__getitem__.column', 'constructor'])],
    'C08': [('C19', ['as_list'])],
    'C10': [('C04', ['dt']), ('C09', ['dt_bump'])],
    'C11': [('C07', CMP), ('C01', ['__getitem__.tuple', '__getitem__.column', 'constructor', 'dict_concat', '__iter__', '__len__', 'get']), ('C19', ['as_list', 'lens', '_wrapped', 'wrapped.positional']),
            ('C04', ['dt']), ('C18', ['wrapper.__call__'])],
    'C12': [('C19', ['as_list'])],
    'C13': [('C19', LISTS)],
    'C15': [('C14', ['axiom validation', 'eq', 'in_'])],
    'C16': [('C18', ['kwargs_support'])],
    'C17': [('C19', ['as_list'])],
    'C20': [('C19', ['as_list', '_wrapped', 'wrapped.positional']), ('C04', ['dt']), ('C18', ['wrapper.__call__']), ('C01', ['__add__', '__iter__', '__len__', 'constructor', 'dict_concat']), ('C02', ['_listby', 'join', 'xor']), ('C07', CMP + ['dictable.sort'])],
}
