"""Per-property registration: level claimed, whether a bounded stand-in exists, free-text explanation."""
PROPS = {}


def reg(pid, level, rac=True, explanation='', assumptions=(), rac_timeout=None):
    PROPS[pid] = dict(level=level, rac=rac, explanation=explanation, assumptions=list(assumptions), rac_timeout=rac_timeout or {})


reg('C09', 'proof',
    explanation='Deductive: every clause is an obligation generated from the real AST of dt_bump (per-token if/elif chain, token loop, '
                'int/timedelta/named-tenor branches, _ymd/ym/month inlined) and discharged by z3/cvc5 for all dates of 1900-2300 and '
                'unbounded n. Bounded (not counted as proved): the same clauses evaluated natively on sampled days, and the token '
                'abstraction A1/A2 cross-checked against the real regex.')

# ---- texts for MANIFEST.json
TEXT = {}
TEXT['C09'] = dict(
    level_text='Proof: each clause of the property (n-th weekday by counting, lands on a weekday, exact fixed units with carry, month overflow, '
               'left-to-right compound tenors, composition, monotonicity, round trips) is an obligation generated from the real AST of dt_bump and '
               'discharged for every date of 1900-2300 and unbounded n; a bounded native run of the same clauses accompanies it.',
    level_note='Trusted: the VC generator, z3/cvc5, the datetime axioms (ordinal = days_from_civil, carry arithmetic; validated against CPython on every run), '
               'the token abstraction A1/A2 of the period regex (regex text compared on every run, tokenisation cross-checked against re). '
               'Excluded by path precondition: pandas timeseries input, time-zone tails, relativedelta bumps.',
    technique='contract-based deductive verification: AST-generated VCs + z3/cvc5; bounded run-time contract check as stand-in',
    design_ref='DESIGN.md section 6 C09')

NOT_APPLICABLE = {('C%02d' % i): 'check not built yet (build in progress; see DESIGN.md section 6 for the plan)' for i in range(1, 21)}

reg('C05', 'proof', rac=False,
    explanation='Deductive: is_holiday/is_bday, adjust f/p (loops with invariants and variants) and m, add (loop path for |n|<=1 and table path), '
                'bdays, Calendar.drange(1b) and the relational clauses (path agreement, bdays(t, add(t,n)) == n, inverse) are obligations generated '
                'from the real AST with holiday and weekend sets uninterpreted. Calendar._populate, the calendar() registry and the Calendar.__init__ constructor (plain key) are under contract too.')
TEXT['C05'] = dict(
    level_text='Proof: holiday and weekend sets are uninterpreted predicates, so one discharged obligation covers every calendar configuration, every date '
               'in range and every n; loops carry sidecar invariants and variants; counting lemmas are proved by explicit induction obligations.',
    level_note='Trusted: VC generator, solvers, induction schema, datetime axioms, ymd drops the time of day (C04); inside the constructor as_list / date_range / zip / dict are uninterpreted operations of their operands. '
               'No assumed repo contract remains for _populate or the constructor (both proved from their bodies). '
               'Range precondition: dates lie between two business days of the calendar.',
    technique='contract-based deductive verification: AST-generated VCs with loop invariants + z3/cvc5',
    design_ref='DESIGN.md section 6 C05')
del NOT_APPLICABLE['C09'], NOT_APPLICABLE['C05']

# ---- properties whose deciding part is (so far) the bounded stand-in only
_B = 'bounded run-time contract check (stand-in; nothing counted as proved)'
for _pid, _what in [
        ('C01', 'operation histories against a list-of-records model'),
        ('C02', 'pairs of tables against a nested-loop join oracle, termination by kill-timeout'),
        ('C06', 'inc/exc partition against a row-by-row filter oracle'),
        ('C11', 'listby/groupby/pivot against regrouping oracles'),
        ('C14', 'eq laws over an enumerated value universe'),
        ('C15', 'tree flatten/rebuild/merge over all small trees'),
        ('C16', 'ulist / dictattr / Dict algebra over complete small scopes'),
        ('C18', 'decorator transparency over all signature shapes'),
        ('C19', 'container lifting over enumerated nestings, waiter under every completion order'),
        ('C20', 'perdictable/join over enumerated key sets, defaults and expiries')]:
    reg(_pid, 'exploration', rac=True, explanation='Bounded only so far: ' + _what)
    TEXT[_pid] = dict(level_text='Bounded exploration: the property clauses are evaluated natively around the real functions over an enumerated scope (%s). '
                                 'Labelled bounded; no obligation is claimed as proved for this property yet.' % _what,
                      level_note='Oracles are plain Python written from the property statement; scope bounds are in the evidence (coverage.rule).',
                      technique=_B, design_ref='DESIGN.md section 6 ' + _pid)
    NOT_APPLICABLE.pop(_pid, None)

for _pid, _what in [
        ('C03', 'collections of Series/DataFrames on a 6-point grid and bare numpy arrays against set-algebra / as-of oracles'),
        ('C04', 'every supported spelling of sampled (quick) or all 146097 (thorough) days of 1900-2300'),
        ('C07', 'cmp laws over all pairs/triples of a 56-value universe, sort on all short lists, dictable.sort'),
        ('C08', 'operators on 2-4 operands over a 5-point grid against pointwise dict arithmetic'),
        ('C10', 'drange for every kind of bump against iterated stepping'),
        ('C12', 'df_fillna / nona on all NaN patterns of short vectors and frames against explicit-loop oracles'),
        ('C13', 'df_slice / df_unslice on all index subsets x bound positions x brackets, stitching'),
        ('C17', 'bitemporal publication histories against a per-date fold')]:
    reg(_pid, 'exploration', rac=True, explanation='Bounded only so far: ' + _what)
    TEXT[_pid] = dict(level_text='Bounded exploration: the property clauses are evaluated natively around the real functions over an enumerated scope (%s). '
                                 'Labelled bounded; no obligation is claimed as proved for this property yet.' % _what,
                      level_note='Oracles are plain Python written from the property statement; scope bounds are in the evidence (coverage.rule).',
                      technique=_B, design_ref='DESIGN.md section 6 ' + _pid)
    NOT_APPLICABLE.pop(_pid, None)
PROPS['C05']['rac'] = True

PROPS['C02'].update(level='other', explanation='Deductive (counted as proved): _listby (sort contract + run-length grouping loop with ghost group ends) '
    'establishes that the groups tile the sorted rows, keys are strictly increasing under cmp, members carry the group key and every row is listed; '
    'the merge loops of join and xor (outer loop + two inner loops, invariants with ghost match positions, variants) establish that the recorded group '
    'pairs are exactly those with cmp-equal keys (join) / the selected groups are exactly those without a cmp-equal key on the other side (xor, both modes, '
    'including the tail), in key order, and that all loops terminate; the partition law is a lemma over the two postconditions. '
    'Bounded (not proved): column spellings, expansion of matched groups into rows, mode handling, empty tables.')
TEXT['C02'].update(
    level_text='Mixed: the grouping and merge algorithms (where the termination and matching defects lived) are proved for all key multisets and table sizes '
               'from the real AST with loop invariants and variants; the row-level expansion and argument spellings are covered by the bounded stand-in only, '
               'so the claim is "other", not "proof".',
    level_note='Hypotheses taken from other properties: cmp is a total preorder (C07), sort returns a cmp-non-decreasing permutation (C07), '
               'dictable.__getitem__ projections (C01). Trusted: VC generator, array/list axioms, z3/cvc5. Known finding: xor with zero key columns.',
    technique='contract-based deductive verification (AST-generated VCs, loop invariants, ghost state, z3/cvc5) + bounded run-time contract check')

PROPS['C01'].update(level='other', explanation='Deductive (counted as proved): dictable.__setitem__ keeps the table rectangular on its three accepting paths and '
    'raises ValueError before anything is stored otherwise; __len__ is the common column length; get returns one entry per row; integer row access satisfies '
    'd[i][c] == d[c][i] for every column. Bounded (not proved): construction forms, masks / slices / integer lists, concat, relabel, do, derived columns, '
    'whole operation histories against the list-of-records model, operands unchanged.')
TEXT['C01'].update(
    level_text='Mixed: the representation invariant is proved for the operations that write into a table (__setitem__) and read rows (__len__, get, d[i]) for all '
               'tables and values; "any operation history" is an induction over operations of which only those are proved - the remaining operations and the '
               'model equality of whole histories are bounded, so the claim is "other".',
    level_note='Callee contracts: lens (C19), dict-level __setitem__/__getitem__ axioms, list repeat axiom for lengths 0/1. Trusted: VC generator, z3/cvc5.',
    technique='contract-based deductive verification (AST-generated VCs over a map-of-columns model, z3/cvc5) + bounded run-time contract check')

PROPS['C06'].update(level='other', explanation='Deductive (counted as proved): _row_check equals the statement\'s reading of one condition (None / NaN / regex on strings / '
    'membership) for every cell and condition; each step of inc\'s filter loop selects rows by a mask that is, entry by entry, _row_check of that row\'s cell; '
    'and_ is the conjunction of the conditions; exc\'s mask is its negation (mask expression checked on the AST). Assumed: row selection by a boolean mask (C01, '
    'bounded-checked). The induction over filters (rows kept = conjunction, partition, idempotence) is an argument in contracts/C06.py, not a solver step. '
    'Bounded only: callable predicates, find_<col>, one_or_none, empty-result rebuild, columns kept.')
TEXT['C06'].update(
    level_text='Mixed: the per-cell condition logic (where inc and exc must agree) is proved over uninterpreted cell predicates for all cells and conditions; '
               'the composition into a partition relies on the assumed mask-selection contract and a written induction, and the rest is bounded - hence "other".',
    level_note='Uninterpreted: is_nan, is_str, isinstance(_, Pattern), Pattern.search, membership in as_list(value). Assumed contract: table[mask] (C01). '
               'Two obligations are syntactic checks of the real AST text (exc mask expression, inc empty-result tail).',
    technique='contract-based deductive verification (AST-generated VCs over uninterpreted cell predicates, z3/cvc5) + bounded run-time contract check')

PROPS['C11'].update(level='other', explanation='Deductive (counted as proved): _listby (groups tile the sorted rows, keys strictly increasing, members carry the group key, '
    'rows of a group in original order, every row listed) and the cell expressions of listby and groupby (one entry per row of the group, each the value of that row). '
    'Argued from these, not solver steps: one row per distinct key, sizes add up, unlist is the stable sort. Bounded only: constructors, update, concat in unlist/ungroup, '
    'pivot (xyz) and unpivot.')
TEXT['C11'].update(
    level_text='Mixed: the grouping algorithm and the per-cell expressions are proved for all tables; the assembling constructor calls, ungroup, pivot and unpivot '
               'are covered by the bounded stand-in only, so the claim is "other".',
    level_note='Hypotheses from other properties: cmp laws and the sort contract (C07), dict-level column lookup (C01). One obligation per function is a syntactic check '
               'of the iteration source on the AST. Trusted: VC generator, list/array axioms, z3/cvc5.',
    technique='contract-based deductive verification (AST-generated VCs, loop invariants, z3/cvc5) + bounded run-time contract check')

PROPS['C20'].update(level='other', explanation='Deductive (counted as proved): in perdictable._value_output the expiry flag of a row is false exactly for an expiry strictly '
    'before today, the value of a row is f(row) when the row is flagged (missing value or not expired) and the previously computed value otherwise, and f has one '
    'evaluation site per row, guarded by exactly that flag. Bounded only: join(inputs, on, defaults) (a composition of dictable.join / xor / sort), scalar-only calls, '
    'run_if_none, _dict_output, output assembly.')
TEXT['C20'].update(
    level_text='Mixed: the gating that decides which rows are (re)computed - the part of the property about call counts, which tests cannot observe for all '
               'expiry assignments - is proved from the two real comprehensions; the keyed join itself is bounded, so the claim is "other".',
    level_note='Model: a non-None expiry is a datetime compared with a symbolic today; f is an uninterpreted function of the row. Callee contracts: row iteration (C01), '
               'Dict.__getitem__(callable) (C16). Two obligations are syntactic (run_expiry feeds the gate; a single evaluation site of f).',
    technique='contract-based deductive verification (AST-generated VCs, z3/cvc5) + bounded run-time contract check')

PROPS['C07'].update(level='other', explanation='Deductive (counted as proved): the real cmp body on the tagged scalar universe (None, bool, int with |i| <= 2**53, float incl. NaN objects '
    'of distinct identity and +-inf, str, datetime) and nested tuples/lists by structural induction on depth (cmparr loop contract): never raises, range {-1,0,1}, antisymmetry, '
    'transitivity, 0 for numerically equal int/float, NaN above every finite number; _has_nan against its recursive spec; sort: permutation, non-decreasing under cmp, never raises, '
    'given the sorted() axiom (native path guarded by _has_nan, key=Cmp path with the real wrapper class executed); dictable.sort: one bijection permutes every column, rows ordered by '
    'key under cmp, ties keep their original order, idempotence lemmas. Bounded only: cmp on dicts and numpy scalars, explicit value orders (**byval), the 56 + 102 value universes.')
TEXT['C07'].update(
    level_text='Mixed: the order laws and the sort / dictable.sort contracts are proved for the dict-free, numpy-free universe from the real AST; dicts, numpy scalars and the '
               'byval branch are bounded, and sort rests on an axiom for the sorted() builtin - hence "other".',
    level_note='Axioms (validated against CPython on every run): ==, < and its TypeError definedness on the scalar universe, tuple/list comparison, type-name order by str(type(x)); '
               'the sorted() axiom; as_primitive is the identity on the universe; structural induction over nesting depth. Known finding: ints beyond the float range.',
    technique='contract-based deductive verification (AST-generated VCs over a tagged value universe, structural induction, z3/cvc5) + bounded run-time contract check')
PROPS['C14'].update(level='other', explanation='Deductive (counted as proved): the real eq body (with _eq_attrs inlined) and in_ on the numpy-free universe (None, bool, int, float/NaN/+-inf, str, '
    'datetime, nested list/tuple) against the recursive spec EQ: never raises, returns a boolean, False when container types differ, NaN equals NaN, identical objects equal, '
    'int equals a numerically equal float; EQ is reflexive, symmetric, transitive (structural induction), agrees with == on NaN-free values, and a structural copy holding different NaN '
    'objects is equal. Bounded only: dicts, numpy arrays and scalars, Series / DataFrames, partial, Timestamp / datetime64.')
TEXT['C14'].update(
    level_text='Mixed: the equivalence laws are proved on the numpy-free universe; everything involving numpy / pandas / dicts is covered by the bounded stand-in only - hence "other".',
    level_note='Axioms validated against CPython on every run (==, container ==); structural induction over nesting depth is trusted. Known finding: transitivity among date types.',
    technique='contract-based deductive verification (AST-generated VCs over a tagged value universe, structural induction, z3/cvc5) + bounded run-time contract check')

PROPS['C10'].update(level='other', explanation='Deductive (counted as proved, 433 obligations): drange from the real AST, one symbolic run per kind of bump - t0 == t1 gives [t0]; direction checks raise '
    'ValueError exactly when the bump points away; integer / None bumps (rrule DAILY axiom + reverse + stride): starts at t0, j-th element t0 + j*n days, within the endpoints, maximal, strictly '
    'monotone; timedelta loops with invariant res[k] == t0 + k*bump and variant; business-day bumps (filtered comprehension as a loop with the weekday-count invariant): every n-th weekday, complete, '
    'reversed for negative n; fixed-length single periods by the rrule axiom, each step equal to the dt_bump token step of C09; compound and negative periods: loops over dt_bump by contract, '
    'terminating for parts of one sign; agreement of n / timedelta(n) / "nd". Bounded only: the list rrule returns for positive month-based periods.')
TEXT['C10'].update(
    level_text='Mixed: every branch written in Python is proved for all dates of 1900-2300 and unbounded n; the branches that delegate to dateutil.rrule rest on an axiom for its fixed-length '
               'frequencies (validated natively on samples) and the month-based single periods are bounded - hence "other".',
    level_note='Trusted: rrule axioms (DAILY/WEEKLY/HOURLY/MINUTELY/SECONDLY), BUMP = fold of the C09 token step, date_range on datetime endpoints, token abstraction A1/A2, datetime axioms, '
               'uninterpreted products constrained by recurrence instances. Known finding: sub-second starts are truncated by rrule.',
    technique='contract-based deductive verification (AST-generated VCs, loop invariants incl. a filtered comprehension, z3/cvc5) + bounded run-time contract check')
PROPS['C04'].update(level='other', explanation='Deductive (counted as proved, 46 obligations): ym normalisation, _ymd overflow law (keeps the day when it exists, rolls the excess into the following month, '
    'd <= 0 rolls back), num2dt integer branches (yyyymmdd / ordinal / year: branch ranges and decode arithmetic), the dt dispatcher on one integer, on (y,m[,d[,h,mi,s]]) and on a tz-naive datetime, ymd '
    'drops the time of day. Bounded (exhaustive over the 146097 days in the thorough tier, but through dateutil / numpy / pandas, so not proved): every string spelling in both dialects, wrong-dialect '
    'rejection, numpy / pandas / date inputs, dt2str round trip.')
TEXT['C04'].update(
    level_text='Mixed: the integer arithmetic of the property is proved; the spellings that go through dateutil, numpy and pandas are enumerated (exhaustively in the thorough tier) but not proved - "other".',
    level_note='Trusted: datetime axioms incl. fromordinal, as_list(tuple) (C19), kind-based type predicates. Excluded by path precondition: NaT, time zones, floats, i <= 1500 (reads the clock), excel / timestamp branches.',
    technique='contract-based deductive verification (AST-generated VCs, z3/cvc5) + exhaustive bounded run-time contract check over the stated finite domain')
PROPS['C16'].update(level='other', explanation='Deductive (counted as proved, 404 obligations): ulist +, |, -, & for list and element arguments (type(self), no duplicates, exact membership, first-occurrence order, '
    'every unique=True fast path justified); dictattr / Dict key algebra (-, &, +, |, [key], [tuple], [list], attribute access, relabel, keys, copy) for every subclass at once via a symbolic class tag: '
    'same class, new object, exact keys, untouched values, key order, receiver unchanged (frame obligations at every mutation site); Dict.__call__: loop invariants with ghost rounds, each callable '
    'evaluated exactly once after its callable dependencies, ValueError only when >= 2 callables remain and none is independent. Bounded only: the dedup pipeline of the ulist constructor, relabel() helper, '
    'Dict.__add__ (tree_update, C15), keyword-order independence (an argument over the proved obligations).')
TEXT['C16'].update(
    level_text='Mixed: the operators and the evaluation loop are proved for all lists / mappings / dependency graphs; the constructor pipeline and the order-independence conclusion are bounded / argued - "other".',
    level_note='Assumed: DEDUP contract of ulist.__init__, dict.__init__(**kw), getargs uninterpreted, element == is an equivalence consistent with hash (no NaN). Excluded: tuple paths, dotted keys, _-prefixed attributes. Known finding: Dict + Dict-subclass.',
    technique='contract-based deductive verification (AST-generated VCs over map / set / list theories, loop invariants with ghost state, z3/cvc5) + bounded run-time contract check')
PROPS['C18'].update(level='other', explanation='Deductive (counted as proved, 170 obligations): cache_func.wrapped with a ghost call counter (miss: one evaluation and store; hit: none; unhashable: fall through; second call '
    'from the first call state returns the first result without evaluating), cache() refusing methods; try_value.wrapped with symbolic repeat (fallback exactly when f raises, evaluation counts), try_back, '
    'the try_* family defaults read from the source; kwargs_support passes exactly the keywords in getargs(f); wrapper.__init__ unwrapping (W(W(g)) and chains: no double wrapping, arguments untouched), '
    'wrapper.__call__ forwarding. Bounded only (exhaustive over signature shapes): getcallargs vs inspect.getcallargs, call_with_callargs, argspec forwarding, loops / pd2np transparency.')
TEXT['C18'].update(
    level_text='Mixed: the wrapper behaviours (where call counts matter and tests cannot observe all call sequences) are proved over an uninterpreted f; the signature-binding re-implementation is '
               'exhaustively enumerated over shapes but not proved - "other".',
    level_note='Assumed: _prehash is an uninterpreted key function, getargs / getargspec uninterpreted, copy.copy of the fallback, time.sleep / logger calls. Known findings: kwargs_support with **kwargs, cache key merging, set arguments.',
    technique='contract-based deductive verification (AST-generated VCs, ghost call counters, object heap for wrappers, z3/cvc5) + bounded run-time contract check')

PROPS['C15'].update(level='other', explanation='Deductive (counted as proved, 94 obligations): frame / ownership obligations from the real AST - items_to_tree, tree_update, Dict.__add__, table_to_tree, '
    'tree_items / keys / values, tree_getitem modify nothing (the base tree is copied branch-deep by _tree_copy before _tree_setitem writes into it); tree_keys and tree_values are the projections of '
    'tree_items (three real recursive bodies on one symbolic tree, induction over the sum(...) segments); tree_getitem follows a path; _tree_setitem creates missing branches, keeps existing ones, writes '
    'the leaf unless ignored and changes nothing off the path (heap of object ids). Bounded only: items_to_tree(tree_items(t)) == t, the merge specification, tree_update(t,t) / (t,{}), table round trips.')
TEXT['C15'].update(
    level_text='Mixed: non-destructiveness (the clause tests cannot check at all depths) is decided by the ownership analysis for all trees, and the projections / path operations are proved; the inverse '
               'and merge laws are bounded - hence "other".',
    level_note='Trusted: the ownership lattice with its transfer functions and the branch-copy promotion rule, induction schemata, list concatenation / sum axioms. Stated precondition: leaves written by '
               '_tree_setitem are not branch-typed or the written paths are prefix-free. Assumed: in_ is a pure membership test.',
    technique='contract-based deductive verification: ownership / frame analysis over the real AST + AST-generated VCs (z3/cvc5) + bounded run-time contract check')
PROPS['C19'].update(level='other', explanation='Deductive (counted as proved, 157 obligations): linearity of iterator arguments in loops._wrapped / wrapped (every generator expression is consumed once, thanks to '
    'args = tuple(args)) and their frames; loops._wrapped on dict / list / tuple / leaf: the result has the class and keys / length of the first argument, each element is the recursive result on the element '
    'and the companions selected by key / index, a leaf is function(arg, *args, **kwargs) (recursion by contract with a measure); _item_by_i / _item_by_key exact; lens and zipper exact; as_list / as_tuple '
    'exact summaries and idempotence (known finding carved out). Bounded only: the library functions built with loop on nestings to depth 4, waiter under every completion order (concurrency).')
TEXT['C19'].update(
    level_text='Mixed: the lifting recursion, the companion selection, zipper / lens and the normalisers are proved; schedule independence of waiter is concurrency and outside this family (bounded schedule '
               'enumeration only) - hence "other".',
    level_note='Trusted: ownership / linearity analysis, zip / set / list axioms. Assumed contracts: len0, is_iterable. Path precondition: no pandas / numpy values (loops.T excluded). Known findings: '
               'unmatched companions are recursed into; as_tuple on a list holding one list.',
    technique='contract-based deductive verification: linearity / frame analysis + AST-generated VCs (z3/cvc5) + bounded run-time contract check')

PROPS['C05'].update(explanation='Deductive (113 obligations): is_holiday / is_bday equal the predicate; adjust f/p (loops with invariants and variants) and m; add on the loop path (|n| <= 1) and the table '
    'path; bdays; Calendar.drange("1b"); the relational clauses (path agreement, bdays(t, add(t,n)) == n, inverse) with counting lemmas proved by induction; Calendar._populate verified on its body '
    '(rrule with byweekday by axiom, filtered comprehension with a counting invariant) against the table contract its callers use; the calendar() registry reflects the arguments it was last called with. '
    'Holiday and weekend sets are uninterpreted, so every configuration is covered. Bounded: the same clauses natively on 48 random configurations, registry histories.')
TEXT['C05'].update(level_note='Trusted: VC generator, solvers, induction schema, datetime axioms, rrule(DAILY, byweekday) enumeration axiom, ymd drops the time of day (C04), Calendar(...) stores its arguments. '
    'Range precondition: dates lie between two business days of the calendar.')

PROPS['C13'].update(level='other', explanation="Deductive (counted as proved) - Wrapper logic proved, pandas behaviour bounded: bracket parsing (_closed), the mask selection with >= / > / <= / < by bracket and time-of-day bounds against index.time, the label-slice fast-path guard, bound-list normalisation for increasing / decreasing lb-only / ub-only / both lists (series i sliced to (ub[i-1], ub[i]] with the caller's brackets, reversal of the series together with the bounds, direction mismatch), the strict wrap-past-midnight test with openclose on both halves, n-column frames and df_unslice's intervals are obligations (285) from the real AST over uninterpreted pandas operations. Bounded (not proved): the property itself on enumerated pandas inputs against plain-Python oracles.")
TEXT['C13'].update(level_text='Mixed: the library\'s own decision logic around pandas is proved for all inputs with the pandas operations uninterpreted; the behaviour of those operations - which is most of the property - is bounded only, hence "other".', level_note='Trusted: the VC generator, the th_pandas model (pandas / numpy operations are uninterpreted functions of receiver and arguments, no aliasing through item / attribute stores, comprehension identity by text), callee contracts by name, as_list / zipper / reduce axioms. What the pandas operations compute is checked by the bounded stand-in only.', technique='contract-based deductive verification (AST-generated VCs over uninterpreted pandas operations, loop invariants, z3/cvc5) + bounded run-time contract check')
PROPS['C08'].update(level='other', explanation="Deductive (counted as proved) - Wrapper logic proved, pandas / presync behaviour bounded: reducer is a left fold; every public operator forwards exactly the caller's join / method / columns to every nested call; the kernels apply exactly their operator; _div_ yields NaN of the operand's shape for a zero scalar and NaN-replaces zeros on a copy; the aggregates' zero-count guards write NaN (89 obligations). Bounded (not proved): the property itself on enumerated pandas inputs against plain-Python oracles.")
TEXT['C08'].update(level_text='Mixed: the library\'s own decision logic around pandas is proved for all inputs with the pandas operations uninterpreted; the behaviour of those operations - which is most of the property - is bounded only, hence "other".', level_note='Trusted: the VC generator, the th_pandas model (pandas / numpy operations are uninterpreted functions of receiver and arguments, no aliasing through item / attribute stores, comprehension identity by text), callee contracts by name, as_list / zipper / reduce axioms. What the pandas operations compute is checked by the bounded stand-in only.', technique='contract-based deductive verification (AST-generated VCs over uninterpreted pandas operations, loop invariants, z3/cvc5) + bounded run-time contract check')
PROPS['C03'].update(level='other', explanation="Deductive (counted as proved) - Wrapper logic proved, pandas behaviour bounded: policy dispatch to intersection / union / first / last reduced over the whole list with no shortcut, df_index / df_reindex / df_sync forwarding, the fill-method branch through _nona(ts).reindex(index, method=methods[0], limit) then the remaining methods, the numpy truncate / pad arithmetic cell by cell, _df_recolumn's guard (111 obligations). Bounded (not proved): the property itself on enumerated pandas inputs against plain-Python oracles.")
TEXT['C03'].update(level_text='Mixed: the library\'s own decision logic around pandas is proved for all inputs with the pandas operations uninterpreted; the behaviour of those operations - which is most of the property - is bounded only, hence "other".', level_note='Trusted: the VC generator, the th_pandas model (pandas / numpy operations are uninterpreted functions of receiver and arguments, no aliasing through item / attribute stores, comprehension identity by text), callee contracts by name, as_list / zipper / reduce axioms. What the pandas operations compute is checked by the bounded stand-in only.', technique='contract-based deductive verification (AST-generated VCs over uninterpreted pandas operations, loop invariants, z3/cvc5) + bounded run-time contract check')
PROPS['C12'].update(level='other', explanation="Deductive (counted as proved) - Wrapper logic proved, pandas behaviour bounded: each method step is the prescribed operation applied to the previous result with limit / axis in position; the loop threads the input through all methods in order (invariant with ghost history); the array path wraps, fills and unwraps; _nona's mask reduction terminates and uses all-columns semantics; inputs are never written in place (ownership checker) (311 obligations). Bounded (not proved): the property itself on enumerated pandas inputs against plain-Python oracles.")
TEXT['C12'].update(level_text='Mixed: the library\'s own decision logic around pandas is proved for all inputs with the pandas operations uninterpreted; the behaviour of those operations - which is most of the property - is bounded only, hence "other".', level_note='Trusted: the VC generator, the th_pandas model (pandas / numpy operations are uninterpreted functions of receiver and arguments, no aliasing through item / attribute stores, comprehension identity by text), callee contracts by name, as_list / zipper / reduce axioms. What the pandas operations compute is checked by the bounded stand-in only.', technique='contract-based deductive verification (AST-generated VCs over uninterpreted pandas operations, loop invariants, z3/cvc5) + bounded run-time contract check')
PROPS['C17'].update(level='other', explanation='Deductive (counted as proved) - Wrapper logic proved, pandas behaviour bounded: _nth stays in bounds for non-empty groups; the as-of filter is <= asof and precedes the stable stamp sort and the per-date selection; _drop_repeats compares each row with its immediate predecessor and only then keeps the last per stamp; bi_merge returns early only for 0 / 1 versions and merges all versions per date through _drop_repeats (52 obligations). Bounded (not proved): the property itself on enumerated pandas inputs against plain-Python oracles.')
TEXT['C17'].update(level_text='Mixed: the library\'s own decision logic around pandas is proved for all inputs with the pandas operations uninterpreted; the behaviour of those operations - which is most of the property - is bounded only, hence "other".', level_note='Trusted: the VC generator, the th_pandas model (pandas / numpy operations are uninterpreted functions of receiver and arguments, no aliasing through item / attribute stores, comprehension identity by text), callee contracts by name, as_list / zipper / reduce axioms. What the pandas operations compute is checked by the bounded stand-in only.', technique='contract-based deductive verification (AST-generated VCs over uninterpreted pandas operations, loop invariants, z3/cvc5) + bounded run-time contract check')

# ---- after the table-operations contracts (mask / constructor / slices / projections / concat / update; pivot; perdictable.join key sets)
PROPS['C01'].update(explanation='Deductive (counted as proved): __setitem__, __len__, get, d[i]; __iter__ (one Dict per row, in order); __getitem__ for boolean masks '
    '(exactly the rows whose entry is true, in order, all columns - count_true with induction lemmas), slices, column names, tuples and lists of names; the constructor from '
    'a dict of columns / keyword columns / ([], columns) / a list of records / nothing with _data_columns_as_dict inlined; dict_concat (all four branches); column deletion; '
    'd1 + d2; update. Bounded only: integer-list selection (rows + headers constructor), broadcast on construction, concat of more than two tables, relabel / do / derived '
    'columns, whole operation histories (the induction over the proved operations is an argument, not a solver step).')
TEXT['C01'].update(
    level_text='Mixed: the representation invariant and the row content are proved for the operations listed in the explanation for all tables and values; "any operation '
               'history" is an induction over operations of which those are proved - the remaining operations and the model equality of whole histories are bounded, '
               'so the claim is "other".',
    level_note='Callee contracts: lens and zipper (C19), dict-level __setitem__/__getitem__ axioms, list repeat axiom for lengths 0/1. Obligations of the table sections are '
               'discharged on a quantifier-free grounding (pyvc/ground.py); trusted: induction schema for count_true, axioms for sorted / set / zip / map / dict / reduce on key '
               'sets and for slice objects, VC generator, z3/cvc5.')
PROPS['C06'].update(explanation=PROPS['C06']['explanation'].replace(
    'Assumed: row selection by a boolean mask (C01, bounded-checked). The induction over filters (rows kept = conjunction, partition, idempotence) is an argument in contracts/C06.py, not a solver step.',
    'Row selection by a boolean mask is the proved contract of dictable.__getitem__ (obligations regenerated in this property); each inc step is composed with it by the solver '
    '(columns kept, one row per passing cell, passing rows at their rank). The induction over several filters is an argument in contracts/C06.py, not a solver step; the exc mask '
    'expression is checked on the AST.'))
TEXT['C06'].update(
    level_text='Mixed: the per-cell condition logic (where inc and exc must agree) is proved over uninterpreted cell predicates for all cells and conditions and composed with the '
               'proved mask-selection contract; the composition over several filters is a written induction, and the rest is bounded - hence "other".',
    level_note='Uninterpreted: is_nan, is_str, isinstance(_, Pattern), Pattern.search, membership in as_list(value). Two obligations are syntactic checks of the real AST text '
               '(exc mask expression, inc empty-result tail).')
PROPS['C11'].update(explanation=PROPS['C11']['explanation'].replace('Bounded only: constructors, update, concat in unlist/ungroup, pivot (xyz) and unpivot.',
    'pivot (xyz): for every (x, y) group its z values (aggregated when agg is given) sit in row = x group, column = y group, other cells None, nothing raises - three _listby calls '
    'by contract, interface lemmas, double loop with invariants and a ghost writer matrix. Assumed: type(self)(xys, x+(y_,)) is the table of group keys and '
    'len(rs[[y_]].listby(y_)) the number of y groups. Bounded only: column labels / final assembly of the pivot, unpivot, ungroup / unlist assembly.'))
TEXT['C11'].update(
    level_text='Mixed: the grouping algorithm, the per-cell expressions and the pivot placement are proved for all tables; the assembling constructor calls, ungroup and unpivot '
               'are covered by the bounded stand-in only, so the claim is "other".')
PROPS['C20'].update(explanation=PROPS['C20']['explanation'].replace(
    'Bounded only: join(inputs, on, defaults) (a composition of dictable.join / xor / sort), scalar-only calls, run_if_none, _dict_output, output assembly.',
    'join(inputs, on, defaults) with _join_dictable_with_defaults and reducer inlined is proved at the level of uninterpreted key sets for 0..2 plain and 0..2 defaulted table '
    'inputs (+ a scalar): result keys (intersection over inputs without defaults, union of the defaulted inputs\' keys when there are none), every input\'s column, own value vs '
    'default per key, sorted by on; _value_output registers expiry and the previous value as outer-joined. Assumed: _item keeps the rows of an input. Bounded: row-level values, '
    '_item, scalar-only calls, run_if_none, _dict_output.'))
TEXT['C20'].update(
    level_text='Mixed: the gating that decides which rows are (re)computed and the key-set algebra of the keyed join are proved; row-level values of the join and the output '
               'assembly are bounded, so the claim is "other".',
    level_note=TEXT['C20']['level_note'] + ' Callee contracts used as facts in join: d1*d2 and d1/d2 (C02), d1+d2 (C01), sort (C07).')

# ---- after the constructor / relabel / as_primitive / is_iterable / len0 contracts
PROPS['C07'].update(explanation=PROPS['C07']['explanation'].replace(
    'NaN above every finite number; _has_nan', 'NaN above every finite number; as_primitive / _as_primitive (cmp\'s normalisation step) from the real AST: None, bool, int, float, str and tz-naive '
    'datetime come back as the very same object, a tuple / list as a container of the same class and length with - by structural induction - the very same leaves (loop(list, tuple) decorator by the '
    'contracts of wrapper.__call__ (C18), loops.wrapped / loops._wrapped (C19), dt(datetime) by C04, all regenerated in this check); _has_nan').replace(
    'Bounded only: cmp on dicts and numpy scalars, explicit value orders', 'Bounded only: cmp on dicts and numpy scalars, as_primitive on numpy / date / Enum values, explicit value orders'))
TEXT['C07'].update(level_note=TEXT['C07']['level_note'].replace('as_primitive is the identity on the universe;',
    'int(x) / float(x) return an object of exact type int / float itself; model note: cmp\'s contract keeps the original handle of a tuple / list although as_primitive hands it a structural copy with the same leaves;'))
PROPS['C16'].update(explanation=PROPS['C16']['explanation'].replace('(counted as proved, 404 obligations)', '(counted as proved)').replace(
    'every unique=True fast path justified);', 'every unique=True fast path justified); the constructor ulist.__init__ from its real body: ulist(xs) = DEDUP(xs) (no duplicates, same members, first-occurrence order, '
    'at most len(xs) items) through its set / index / sorted pipeline, ulist(xs, unique=True) holds the items of xs, ulist() is empty;').replace(
    'attribute access, relabel, keys, copy)', 'attribute access, relabel (the module-level helper relabel() for seven shapes of *args - none, suffix, prefix, other string, callable, dict, two names - and executed at its '
    'call site in dictattr.relabel: new label of every key, explicit relabels win, values untouched and original order when no two keys collide), keys, copy)').replace(
    'ValueError only when >= 2 callables remain and none is independent.', 'ValueError only when >= 2 callables remain and none is independent; Dict.apply from its body (the keywords handed to '
    'kwargs_support(f) are {**defaults, **self}).').replace(
    'Bounded only: the dedup pipeline of the ulist constructor, relabel() helper, Dict.__add__', 'Bounded only: relabel with a single list of names or >= 3 names, Dict.__add__'))
TEXT['C16'].update(
    level_text='Mixed: the operators, the constructor, relabel, apply and the evaluation loop are proved for all lists / mappings / dependency graphs given axioms for set iteration, list.index and sorted(); '
               'the order-independence conclusion is argued - "other".',
    level_note='Axioms (validated against CPython on every run): set iteration, list.index, sorted() of (int key, item) pairs with pairwise different keys, list.__init__, zip dict comprehension, dict.__init__ for a dict '
               'subclass without its own constructor. Uninterpreted: getargs, string concatenation, the callable handed to relabel. Preconditions: new labels are strings; element == is an equivalence consistent '
               'with hash (no NaN). Excluded: tuple paths, dotted keys, _-prefixed attributes. Known finding: Dict + Dict-subclass.')
PROPS['C19'].update(explanation=PROPS['C19']['explanation'].replace('(counted as proved, 157 obligations)', '(counted as proved)').replace(
    'and their frames;', 'and their frames; loops.wrapped called with positional arguments hands (args[0], args[1:], kwargs) to _wrapped;').replace(
    'lens and zipper exact;', 'lens and zipper exact; is_iterable and len0 from their real bodies (True exactly for list / tuple / range-like / dict; len(x) for sized containers, 0 for None, strings, scalars and zip objects);'))
TEXT['C19'].update(level_note=TEXT['C19']['level_note'].replace('Assumed contracts: len0, is_iterable.',
    'Universe: a value tagged OTHER is a string or a scalar that is neither Iterable nor sized (sets, bytes, generators outside the datatype); getattr(x, "__len__", d)() axiom; loops.wrapped with keywords only is bounded.'))

# ---- after the rows + headers constructor, integer-list selection, constructor from one record (C01) and unlist (C11)
PROPS['C01'].update(explanation='Deductive (counted as proved): __setitem__, __len__, get, d[i]; __iter__ (one Dict per row, in order); __getitem__ for boolean masks (exactly the rows whose entry is '
    'true, in order, all columns - count_true with induction lemmas), slices, column names, tuples and lists of names, and lists of integers (all columns, one row per index, row j is row item[j] of the '
    'receiver with Python\'s negative indices, IndexError iff an index is outside -len..len-1, receiver unchanged - list(zip(*self.values())) by a transposition axiom, the rows + headers constructor by its '
    'proved contract); the constructor with _data_columns_as_dict inlined from a dict of columns / keyword columns / ([], columns) / a list of records / nothing / a list of n row tuples of length m with m '
    'distinct names given as a list or as dict keys (exactly the named columns, column p lists row[i][p]; zipper by its C19 contract) / one record whose cells are None, lists or scalars (broadcast on '
    'construction: list cells of one length kept, scalars / None / one-element lists repeated, ValueError for list cells of different lengths); dict_concat (all four branches); column deletion; d1 + d2; '
    'update. Outside the rows + headers contract: rows of unequal length, a name count other than the row length, repeated names. Bounded only: broadcast for tuple / range / dict-view cells and keyword '
    'columns, concat of more than two operands that are tables already, relabel / do / derived columns, whole operation histories (the induction over the proved operations is an argument, not a solver step).')
PROPS['C02'].update(explanation=PROPS['C02']['explanation'].replace('Bounded (not proved):',
    'The row selection xor ends with, dictable[list of row indices], is a callee contract proved in C01 (__getitem__.ints.* and constructor.rows.*, regenerated in this property\'s check). Bounded (not proved):'))
PROPS['C11'].update(explanation='Deductive (counted as proved): _listby (groups tile the sorted rows, keys strictly increasing, members carry the group key, rows of a group in original order, every row '
    'listed) and the cell expressions of listby and groupby (one entry per row of the group, each the value of that row). unlist: its body with concat as a call (no row: the table itself; otherwise '
    'cls.concat of the list of the rows, in order) and dictable.concat + as_list executed from their source on R records for symbolic R - all columns, NR[0]+...+NR[R-1] rows (NR[r] = length of the list '
    'cells of row r, 1 when it has none), the block of row r lists its list cells item by item and repeats its other cells, ValueError iff a row has two list cells of different lengths other than 1; callees '
    'by contract (C01 __iter__, constructor.record, dict_concat, constructor.columns; C19 lens, as_list - all regenerated here), sum(lists, []) by a concatenation axiom, the prefix-sum law by induction '
    '(base + step obligations). Argued from these, not solver steps: one row per distinct key, sizes add up, unlist(listby(d)) is the stable sort. pivot (xyz): for every (x, y) group its z values '
    '(aggregated when agg is given) sit in row = x group, column = y group, other cells None, nothing raises - three _listby calls by contract, interface lemmas, double loop with invariants and a ghost '
    'writer matrix. Assumed: type(self)(xys, x+(y_,)) is the table of group keys (the rows + headers form proved in C01 for list / dict-key names; the link from opaque group keys to their components is '
    'not modelled) and len(rs[[y_]].listby(y_)) the number of y groups. Bounded only: ungroup (its per-row table goes through dictable.__call__, Dict.do and dict.pop, which are not under contract; the '
    'concat assembly is the one proved for unlist), type(self)(xs, by) / update inside listby and groupby, column labels / final assembly of the pivot, unpivot.')
TEXT['C11'].update(level_text='Mixed: the grouping algorithm, the per-cell expressions, the pivot placement and unlist are proved for all tables; ungroup, unpivot and the assembling constructor calls '
                              'inside listby / groupby are covered by the bounded stand-in only, so the claim is "other".')
