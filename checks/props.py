"""Per-property registration: level claimed, whether a bounded stand-in exists, free-text explanation."""
PROPS = {}


def reg(pid, level, rac=True, explanation='', assumptions=(), rac_timeout=None):
    PROPS[pid] = dict(level=level, rac=rac, explanation=explanation, assumptions=list(assumptions), rac_timeout=rac_timeout or {})


reg('C09', 'proof',
    explanation='Deductive: every clause is an obligation generated from the real AST of dt_bump (per-token if/elif chain, token loop, '
                'int/timedelta/named-tenor branches, _ymd/ym/month inlined) and discharged by z3/cvc5 for all dates of 1900-2300 and '
                'unbounded n. Bounded (not counted as proved): the same clauses evaluated natively on sampled days, and the token '
                'abstraction A1/A2 cross-checked against the real regex.')

# ---- texts for MANIFEST.json
TEXT = {}
TEXT['C09'] = dict(
    level_text='Proof: each clause of the property (n-th weekday by counting, lands on a weekday, exact fixed units with carry, month overflow, '
               'left-to-right compound tenors, composition, monotonicity, round trips) is an obligation generated from the real AST of dt_bump and '
               'discharged for every date of 1900-2300 and unbounded n; a bounded native run of the same clauses accompanies it.',
    level_note='Trusted: the VC generator, z3/cvc5, the datetime axioms (ordinal = days_from_civil, carry arithmetic; validated against CPython on every run), '
               'the token abstraction A1/A2 of the period regex (regex text compared on every run, tokenisation cross-checked against re). '
               'Excluded by path precondition: pandas timeseries input, time-zone tails, relativedelta bumps.',
    technique='contract-based deductive verification: AST-generated VCs + z3/cvc5; bounded run-time contract check as stand-in',
    design_ref='DESIGN.md section 6 C09')

NOT_APPLICABLE = {('C%02d' % i): 'check not built yet (build in progress; see DESIGN.md section 6 for the plan)' for i in range(1, 21)}

reg('C05', 'proof', rac=False,
    explanation='Deductive: is_holiday/is_bday, adjust f/p (loops with invariants and variants) and m, add (loop path for |n|<=1 and table path), '
                'bdays, Calendar.drange(1b) and the relational clauses (path agreement, bdays(t, add(t,n)) == n, inverse) are obligations generated '
                'from the real AST with holiday and weekend sets uninterpreted. Calendar._populate is an assumed contract.')
TEXT['C05'] = dict(
    level_text='Proof: holiday and weekend sets are uninterpreted predicates, so one discharged obligation covers every calendar configuration, every date '
               'in range and every n; loops carry sidecar invariants and variants; counting lemmas are proved by explicit induction obligations.',
    level_note='Trusted: VC generator, solvers, induction schema, datetime axioms, ymd drops the time of day (C04). Assumed contract (bounded-checked only): '
               'Calendar._populate (filtered comprehension over dateutil.rrule) builds dt2int[b] = number of business days before b and int2dt its inverse. '
               'Range precondition: dates lie between two business days of the calendar.',
    technique='contract-based deductive verification: AST-generated VCs with loop invariants + z3/cvc5',
    design_ref='DESIGN.md section 6 C05')
del NOT_APPLICABLE['C09'], NOT_APPLICABLE['C05']
